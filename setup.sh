#!/bin/sh
# Nothing to build ahead of time: every check generates its harness crate from /repo's
# current working tree and builds it with cargo kani (offline).  Only sanity checks here.
set -e
cd "$(dirname "$0")"
mkdir -p work evidence replays
command -v cargo >/dev/null
cargo kani --version >/dev/null
python3 -c "import sys; sys.path.insert(0, '.'); import vt.main"
echo "setup ok"
