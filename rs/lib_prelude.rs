// Shared by every generated harness crate (copied verbatim into src/lib.rs).
// Under `cargo kani` the real `kani` crate is used.  In a native build (compile pre-pass
// and counterexample replay) the module below stands in for it: `any()` replays the byte
// vectors printed by Kani's concrete playback, `assume(false)` ends the replay as
// "not reproduced", `cover!` is a no-op.
#![allow(dead_code, unused_imports, unused_variables, unused_mut, unused_macros)]
#![allow(non_snake_case, unreachable_patterns, unreachable_code, clippy::all)]

#[cfg(not(kani))]
pub mod kani {
    use std::cell::RefCell;
    thread_local! {
        pub static VALS: RefCell<(Vec<Vec<u8>>, usize)> = RefCell::new((Vec::new(), 0));
    }
    pub fn load(v: Vec<Vec<u8>>) {
        VALS.with(|c| *c.borrow_mut() = (v, 0));
    }
    pub fn exhausted() -> bool {
        VALS.with(|c| { let c = c.borrow(); c.1 >= c.0.len() })
    }
    fn next_bytes(n: usize) -> Vec<u8> {
        VALS.with(|c| {
            let mut c = c.borrow_mut();
            let i = c.1;
            c.1 += 1;
            match c.0.get(i) {
                Some(b) if b.len() == n => b.clone(),
                Some(b) => {
                    eprintln!("REPLAY-MISMATCH: value {} has {} bytes, harness asks for {}", i, b.len(), n);
                    std::process::exit(3)
                }
                None => {
                    eprintln!("REPLAY-MISMATCH: harness asks for more values than recorded ({})", i);
                    std::process::exit(3)
                }
            }
        })
    }
    pub trait Arb: Sized {
        fn arb() -> Self;
    }
    macro_rules! arb_int { ($($t:ty),*) => {$(
        impl Arb for $t {
            fn arb() -> Self {
                let b = next_bytes(core::mem::size_of::<$t>());
                let mut a = [0u8; core::mem::size_of::<$t>()];
                a.copy_from_slice(&b);
                <$t>::from_le_bytes(a)
            }
        }
    )*}}
    arb_int!(u8, u16, u32, u64, u128, usize, i8, i16, i32, i64, i128, isize);
    impl Arb for bool {
        fn arb() -> Self { next_bytes(1)[0] != 0 }
    }
    impl<T: Arb, const N: usize> Arb for [T; N] {
        fn arb() -> Self { core::array::from_fn(|_| T::arb()) }
    }
    pub fn any<T: Arb>() -> T { T::arb() }
    pub fn assume(c: bool) {
        if !c {
            eprintln!("REPLAY-ASSUME-FALSE: recorded values leave the harness' assumptions");
            std::process::exit(4)
        }
    }
    #[macro_export]
    macro_rules! __vt_cover { ($($t:tt)*) => {{}} }
    pub use crate::__vt_cover as cover;
}

pub mod util {
    /// fixed-capacity fmt sink: no allocation under the solver
    pub const CAP: usize = 24;
    pub struct Sink {
        pub buf: [u8; CAP],
        pub len: usize,
        pub overflow: bool,
    }
    impl Sink {
        pub fn new() -> Self { Sink { buf: [0; CAP], len: 0, overflow: false } }
        pub fn is(&self, s: &str) -> bool {
            !self.overflow && eq_bytes(&self.buf[..self.len], s.as_bytes())
        }
    }
    impl core::fmt::Write for Sink {
        fn write_str(&mut self, s: &str) -> core::fmt::Result {
            let b = s.as_bytes();
            let mut i = 0;
            while i < b.len() {
                if self.len < CAP {
                    self.buf[self.len] = b[i];
                    self.len += 1;
                } else {
                    self.overflow = true;
                }
                i += 1;
            }
            Ok(())
        }
    }
    #[inline(never)]
    pub fn eq_bytes(a: &[u8], b: &[u8]) -> bool {
        if a.len() != b.len() {
            return false;
        }
        let mut i = 0;
        while i < a.len() {
            if a[i] != b[i] {
                return false;
            }
            i += 1;
        }
        true
    }
    #[inline(always)]
    pub fn eq_str(a: &str, b: &str) -> bool { eq_bytes(a.as_bytes(), b.as_bytes()) }
}
