// Engine B: Kani over the REAL `Features::resolve` (src/generator/features.rs) and every
// feature's real `check()`; the repository's module files are included verbatim by path.
// The whole configuration is symbolic: 17 user feature flags, the four mode parameters,
// gapless / with holes, number of variants and guessed repr size.

#[path = "@REPO@/src/feature/mod.rs"]
mod feature;
#[path = "@REPO@/src/generator/mod.rs"]
mod generator;
#[path = "@REPO@/src/parser/mod.rs"]
mod parser;

pub mod hb {
    #[cfg(not(kani))]
    use crate::kani;
    use crate::feature::as_str_fn::{AsStrMode, FeatureAsStrFn};
    use crate::feature::debug_trait::FeatureDebugTrait;
    use crate::feature::display_trait::FeatureDisplayTrait;
    use crate::feature::from_str_fn::{FeatureFromStrFn, FromStrFnMode};
    use crate::feature::from_str_trait::{FeatureFromStrTrait, FromStrMode};
    use crate::feature::into_fn::FeatureIntoFn;
    use crate::feature::into_str_trait::FeatureIntoStrTrait;
    use crate::feature::into_trait::FeatureIntoTrait;
    use crate::feature::iter::{FeatureIter, IterMode};
    use crate::feature::max_const::FeatureMaxConst;
    use crate::feature::min_const::FeatureMinConst;
    use crate::feature::names::FeatureNames;
    use crate::feature::next_back_fn::FeatureNextBackFn;
    use crate::feature::next_fn::FeatureNextFn;
    use crate::feature::range_fn::FeatureRangeFn;
    use crate::feature::try_from_fn::FeatureTryFromFn;
    use crate::feature::try_from_trait::FeatureTryFromTrait;
    use crate::generator::features::Features;
    use crate::generator::{Derive, Mode};
    use core::mem::MaybeUninit;
    use core::ptr::addr_of_mut;
    use proc_macro2::Span;

    /// what the user wrote (the parser's output), as plain data
    #[derive(Clone, Copy)]
    pub struct Cfg {
        pub as_str: bool,
        pub debug: bool,
        pub display: bool,
        pub from_str_fn: bool,
        pub from_str_trait: bool,
        pub into_fn: bool,
        pub into_str: bool,
        pub into_trait: bool,
        pub iter: bool,
        pub max: bool,
        pub min: bool,
        pub names: bool,
        pub next_back: bool,
        pub next: bool,
        pub range: bool,
        pub try_from_fn: bool,
        pub try_from_trait: bool,
        pub as_str_mode: u8,        // 0 auto 1 match 2 table
        pub from_str_fn_mode: u8,   // 0 auto 1 match 2 table
        pub from_str_trait_mode: u8,
        pub iter_mode: u8,          // 0 auto 1 range 2 next_and_back 3 table 4 table_inline
        pub gapless: bool,
        pub num_values: usize,
        pub repr_size: usize,
        pub min_key: i64,
        pub max_key: i64,
    }

    pub fn any_cfg() -> Cfg {
        let c = Cfg {
            as_str: kani::any(),
            debug: kani::any(),
            display: kani::any(),
            from_str_fn: kani::any(),
            from_str_trait: kani::any(),
            into_fn: kani::any(),
            into_str: kani::any(),
            into_trait: kani::any(),
            iter: kani::any(),
            max: kani::any(),
            min: kani::any(),
            names: kani::any(),
            next_back: kani::any(),
            next: kani::any(),
            range: kani::any(),
            try_from_fn: kani::any(),
            try_from_trait: kani::any(),
            as_str_mode: kani::any(),
            from_str_fn_mode: kani::any(),
            from_str_trait_mode: kani::any(),
            iter_mode: kani::any(),
            gapless: kani::any(),
            num_values: kani::any(),
            repr_size: kani::any(),
            min_key: kani::any(),
            max_key: kani::any(),
        };
        kani::assume(c.as_str_mode <= 2 && c.from_str_fn_mode <= 2 && c.from_str_trait_mode <= 2);
        kani::assume(c.iter_mode <= 4);
        // the parser gives a feature that is not listed its default (auto) mode
        kani::assume(c.as_str || c.as_str_mode == 0);
        kani::assume(c.from_str_fn || c.from_str_fn_mode == 0);
        kani::assume(c.from_str_trait || c.from_str_trait_mode == 0);
        kani::assume(c.iter || c.iter_mode == 0);
        // shape: 1..=65534 variants, a with-holes enum has at least 2
        kani::assume(c.num_values >= 1 && c.num_values <= 65534);
        kani::assume(c.gapless || c.num_values >= 2);
        // smallest / largest discriminant consistent with the shape: a gapless enum spans exactly
        // num_values integers, an enum with holes spans more
        kani::assume(c.min_key <= c.max_key);
        let span = (c.max_key as i128) - (c.min_key as i128) + 1;
        kani::assume(if c.gapless { span == c.num_values as i128 } else { span > c.num_values as i128 });
        kani::assume(c.repr_size == 1 || c.repr_size == 2 || c.repr_size == 4 || c.repr_size == 8 || c.repr_size == 16);
        c
    }

    /// the documented legality rule (src/lib.rs: range requires iter and not table_inline;
    /// iter mode range only for gapless enums)
    pub fn legal(c: &Cfg) -> bool {
        let range_ok = !c.range || (c.iter && c.iter_mode != 4);
        let iter_ok = !(c.iter && c.iter_mode == 1 && !c.gapless);
        range_ok && iter_ok
    }

    fn as_str_mode(m: u8) -> AsStrMode {
        match m { 1 => AsStrMode::Match, 2 => AsStrMode::Table, _ => AsStrMode::Auto }
    }
    fn fs_fn_mode(m: u8) -> FromStrFnMode {
        match m { 1 => FromStrFnMode::Match, 2 => FromStrFnMode::Table, _ => FromStrFnMode::Auto }
    }
    fn fs_tr_mode(m: u8) -> FromStrMode {
        match m { 1 => FromStrMode::Match, 2 => FromStrMode::Table, _ => FromStrMode::Auto }
    }
    fn iter_mode(m: u8) -> IterMode {
        match m {
            1 => IterMode::Range,
            2 => IterMode::NextAndBack,
            3 => IterMode::Table,
            4 => IterMode::TableInline,
            _ => IterMode::Auto,
        }
    }
    pub fn as_str_mode_n(m: &AsStrMode) -> u8 {
        match m { AsStrMode::Auto => 0, AsStrMode::Match => 1, AsStrMode::Table => 2 }
    }
    pub fn fs_fn_mode_n(m: &FromStrFnMode) -> u8 {
        match m { FromStrFnMode::Auto => 0, FromStrFnMode::Match => 1, FromStrFnMode::Table => 2 }
    }
    pub fn fs_tr_mode_n(m: &FromStrMode) -> u8 {
        match m { FromStrMode::Auto => 0, FromStrMode::Match => 1, FromStrMode::Table => 2 }
    }
    pub fn iter_mode_n(m: &IterMode) -> u8 {
        match m {
            IterMode::Auto => 0,
            IterMode::Range => 1,
            IterMode::NextAndBack => 2,
            IterMode::Table => 3,
            IterMode::TableInline => 4,
        }
    }

    /// the Features value `Derive::parse` would produce for this configuration
    pub fn features_of(c: &Cfg) -> Features {
        Features {
            as_str_fn: FeatureAsStrFn { enabled: c.as_str, vis: None, name: String::new(), mode: as_str_mode(c.as_str_mode) },
            debug_trait: FeatureDebugTrait { enabled: c.debug },
            display_trait: FeatureDisplayTrait { enabled: c.display },
            from_str_fn: FeatureFromStrFn { enabled: c.from_str_fn, vis: None, name: String::new(), mode: fs_fn_mode(c.from_str_fn_mode) },
            from_str_trait: FeatureFromStrTrait { enabled: c.from_str_trait, mode: fs_tr_mode(c.from_str_trait_mode) },
            into_fn: FeatureIntoFn { enabled: c.into_fn, vis: None, name: String::new() },
            into_str_trait: FeatureIntoStrTrait { enabled: c.into_str },
            into_trait: FeatureIntoTrait { enabled: c.into_trait },
            iter: FeatureIter { enabled: c.iter, vis: None, name: String::new(), span: Span::call_site(), struct_name: None, mode: iter_mode(c.iter_mode) },
            max_const: FeatureMaxConst { enabled: c.max, vis: None, name: String::new() },
            min_const: FeatureMinConst { enabled: c.min, vis: None, name: String::new() },
            names: FeatureNames { enabled: c.names, vis: None, name: String::new(), struct_name: None },
            next_back_fn: FeatureNextBackFn { enabled: c.next_back, vis: None, name: String::new() },
            next_fn: FeatureNextFn { enabled: c.next, vis: None, name: String::new() },
            range_fn: FeatureRangeFn { enabled: c.range, vis: None, name: String::new(), span: Span::call_site() },
            table_enum: Default::default(),
            table_name: Default::default(),
            table_range: Default::default(),
            try_from_fn: FeatureTryFromFn { enabled: c.try_from_fn, vis: None, name: String::new() },
            try_from_trait: FeatureTryFromTrait { enabled: c.try_from_trait },
        }
    }

    /// `Derive` with every field except the three `Ident`s initialised (constructing an
    /// `Ident` makes kani-compiler 0.68 ICE; the Ident fields are never read by resolve)
    pub struct DeriveBox(MaybeUninit<Derive>);
    impl DeriveBox {
        pub fn new(c: &Cfg) -> Self {
            let mut d = MaybeUninit::<Derive>::uninit();
            let mode = if c.gapless { Mode::Gapless } else { Mode::WithHoles { value_ranges: Vec::new() } };
            unsafe {
                addr_of_mut!((*d.as_mut_ptr()).mode).write(mode);
                addr_of_mut!((*d.as_mut_ptr()).num_values).write(c.num_values);
                addr_of_mut!((*d.as_mut_ptr()).repr_size_guessed).write(c.repr_size);
                addr_of_mut!((*d.as_mut_ptr()).min_key).write(c.min_key);
                addr_of_mut!((*d.as_mut_ptr()).max_key).write(c.max_key);
                addr_of_mut!((*d.as_mut_ptr()).values).write(Vec::new());
                addr_of_mut!((*d.as_mut_ptr()).vis_enum).write(syn::Visibility::Inherited);
            }
            DeriveBox(d)
        }
        pub fn get(&self) -> &Derive {
            unsafe { &*self.0.as_ptr() }
        }
    }

    #[cfg(kani)]
    pub fn stub_abort(_d: proc_macro_error::Diagnostic) -> ! {
        // abort! == "the configuration is rejected": the path ends here
        kani::assume(false);
        loop {}
    }

    /// run the real resolver; None = it aborted (only observable natively; under Kani an
    /// abort ends the path through the stub)
    pub fn run_resolve(c: &Cfg) -> Option<Features> {
        let mut f = features_of(c);
        let d = DeriveBox::new(c);
        #[cfg(kani)]
        {
            f.resolve(d.get());
            let r = Some(f);
            core::mem::forget(d);
            r
        }
        #[cfg(not(kani))]
        {
            let r = std::panic::catch_unwind(std::panic::AssertUnwindSafe(|| {
                f.resolve(d.get());
                f
            }));
            core::mem::forget(d);
            r.ok()
        }
    }

    // -------------------------------------------------------------------------------
    // C09 / C10 / C13: every legal configuration resolves, to documented modes only

    #[cfg_attr(kani, kani::proof)]
    #[cfg_attr(kani, kani::unwind(8))]
    #[cfg_attr(kani, kani::stub(proc_macro_error::Diagnostic::abort, stub_abort))]
    pub fn h_resolve_legal() {
        let c = any_cfg();
        kani::assume(legal(&c));
        let f = match run_resolve(&c) {
            Some(f) => f,
            None => {
                assert!(false, "a legal configuration is rejected (abort/panic in resolve)");
                return;
            }
        };
        kani::cover!(true, "a legal configuration resolves");
        // user-enabled items stay enabled
        assert!(!c.as_str || f.as_str_fn.enabled, "user feature cleared");
        assert!(!c.debug || f.debug_trait.enabled);
        assert!(!c.display || f.display_trait.enabled);
        assert!(!c.from_str_fn || f.from_str_fn.enabled);
        assert!(!c.from_str_trait || f.from_str_trait.enabled);
        assert!(!c.into_fn || f.into_fn.enabled);
        assert!(!c.into_str || f.into_str_trait.enabled);
        assert!(!c.into_trait || f.into_trait.enabled);
        assert!(!c.iter || f.iter.enabled);
        assert!(!c.max || f.max_const.enabled);
        assert!(!c.min || f.min_const.enabled);
        assert!(!c.names || f.names.enabled);
        assert!(!c.next_back || f.next_back_fn.enabled);
        assert!(!c.next || f.next_fn.enabled);
        assert!(!c.range || f.range_fn.enabled);
        assert!(!c.try_from_fn || f.try_from_fn.enabled);
        assert!(!c.try_from_trait || f.try_from_trait.enabled);
        // explicit modes are never changed
        let am = as_str_mode_n(&f.as_str_fn.mode);
        let fm = fs_fn_mode_n(&f.from_str_fn.mode);
        let tm = fs_tr_mode_n(&f.from_str_trait.mode);
        let im = iter_mode_n(&f.iter.mode);
        assert!(c.as_str_mode == 0 || am == c.as_str_mode, "explicit as_str mode changed");
        assert!(c.from_str_fn_mode == 0 || fm == c.from_str_fn_mode, "explicit from_str mode changed");
        assert!(c.from_str_trait_mode == 0 || tm == c.from_str_trait_mode, "explicit FromStr mode changed");
        assert!(c.iter_mode == 0 || im == c.iter_mode, "explicit iter mode changed");
        // every enabled item has a concrete mode (generate() panics on Auto)
        assert!(!f.as_str_fn.enabled || am != 0, "as_str left on auto");
        assert!(!f.from_str_fn.enabled || fm != 0, "from_str left on auto");
        assert!(!f.from_str_trait.enabled || tm != 0, "FromStr left on auto");
        assert!(!f.iter.enabled || im != 0, "iter left on auto");
        // auto resolves only to a mode that is legal for the shape and the co-enabled features
        assert!(!(f.iter.enabled && im == 1) || c.gapless, "iter resolved to range on an enum with holes");
        assert!(!(f.range_fn.enabled && im == 4), "range with iter resolved to table_inline");
        // range_fn.generate() has arms for exactly these modes
        if f.range_fn.enabled {
            if c.gapless {
                assert!(im == 1 || im == 2 || im == 3, "range: no template for the resolved iter mode");
            } else {
                assert!(im == 2 || im == 3, "range: no template for the resolved iter mode");
            }
        }
        kani::cover!(c.iter && c.iter_mode == 0 && im == 4, "auto picked table_inline");
        kani::cover!(c.iter && c.iter_mode == 0 && im == 3, "auto picked table");
        kani::cover!(c.iter && c.iter_mode == 0 && im == 2, "auto picked next_and_back");
        kani::cover!(c.iter && c.iter_mode == 0 && im == 1, "auto picked range");
        kani::cover!(c.as_str && c.as_str_mode == 0 && am == 2, "as_str auto picked table");
        kani::cover!(c.as_str && c.as_str_mode == 0 && am == 1, "as_str auto picked match");
        core::mem::forget(f);
    }

    // C10: whatever a generated template refers to is generated as well.  The table below
    // is read off the quote! templates (which identifiers each mode/shape interpolates).
    #[cfg_attr(kani, kani::proof)]
    #[cfg_attr(kani, kani::unwind(8))]
    #[cfg_attr(kani, kani::stub(proc_macro_error::Diagnostic::abort, stub_abort))]
    pub fn h_needs() {
        let c = any_cfg();
        kani::assume(legal(&c));
        let f = match run_resolve(&c) {
            Some(f) => f,
            None => return, // h_resolve_legal reports this
        };
        let g = c.gapless;
        let am = as_str_mode_n(&f.as_str_fn.mode);
        let fm = fs_fn_mode_n(&f.from_str_fn.mode);
        let tm = fs_tr_mode_n(&f.from_str_trait.mode);
        let im = iter_mode_n(&f.iter.mode);
        let min = f.min_const.enabled;
        let max = f.max_const.enabled;
        let tn = f.table_name.enabled;
        let te = f.table_enum.enabled;
        let tr = f.table_range.enabled;       // only emitted for enums with holes
        let tro = f.table_range.enabled && f.table_range.with_offset;
        // Debug / Display / IntoStr call as_str
        if f.debug_trait.enabled || f.display_trait.enabled || f.into_str_trait.enabled {
            assert!(f.as_str_fn.enabled, "Debug/Display/IntoStr need as_str");
        }
        if f.as_str_fn.enabled && am == 2 {
            assert!(tn, "as_str(table) needs the name table");
            if g { assert!(min, "as_str(table), gapless, needs MIN"); } else { assert!(tro, "as_str(table), holes, needs the range table with offsets"); }
        }
        if f.from_str_fn.enabled && fm == 2 {
            assert!(tn, "from_str(table) needs the name table");
            if g { assert!(min, "from_str(table), gapless, needs MIN"); } else { assert!(te, "from_str(table), holes, needs the enum table"); }
        }
        if f.from_str_trait.enabled && tm == 2 {
            assert!(tn, "FromStr(table) needs the name table");
            if g { assert!(min, "FromStr(table), gapless, needs MIN"); } else { assert!(te, "FromStr(table), holes, needs the enum table"); }
        }
        if f.names.enabled {
            assert!(tn, "names needs the name table");
        }
        if f.iter.enabled && im == 2 {
            assert!(min && max && f.next_fn.enabled && f.next_back_fn.enabled, "iter(next_and_back) needs MIN, MAX, next, next_back");
        }
        if f.iter.enabled && im == 3 {
            assert!(te, "iter(table) needs the enum table");
        }
        if f.next_fn.enabled {
            if g { assert!(max, "next, gapless, needs MAX"); } else { assert!(tr, "next, holes, needs the range table"); }
        }
        if f.next_back_fn.enabled {
            if g { assert!(min, "next_back, gapless, needs MIN"); } else { assert!(tr, "next_back, holes, needs the range table"); }
        }
        if f.try_from_fn.enabled || f.try_from_trait.enabled {
            assert!(min && max, "try_from needs MIN and MAX");
            if !g { assert!(tr, "try_from, holes, needs the range table"); }
        }
        if f.range_fn.enabled {
            assert!(f.iter.enabled, "range needs iter");
            if g {
                if im == 2 || im == 3 { assert!(min, "range, gapless, needs MIN"); }
                if im == 3 { assert!(te, "range(table) needs the enum table"); }
            } else {
                assert!(tro, "range, holes, needs the range table with offsets");
                if im == 3 { assert!(te, "range(table) needs the enum table"); }
            }
        }
        kani::cover!(f.range_fn.enabled && !g && im == 3, "range/table/holes reached");
        kani::cover!(f.as_str_fn.enabled && !c.as_str, "as_str generated as a helper");
        core::mem::forget(f);
    }

    // C13: every illegal configuration is rejected
    #[cfg_attr(kani, kani::proof)]
    #[cfg_attr(kani, kani::unwind(8))]
    #[cfg_attr(kani, kani::stub(proc_macro_error::Diagnostic::abort, stub_abort))]
    pub fn h_resolve_illegal() {
        let c = any_cfg();
        kani::assume(!legal(&c));
        kani::cover!(c.range && !c.iter, "range without iter");
        kani::cover!(c.range && c.iter && c.iter_mode == 4, "range with table_inline");
        kani::cover!(c.iter && c.iter_mode == 1 && !c.gapless, "iter range on holes");
        match run_resolve(&c) {
            Some(f) => {
                core::mem::forget(f);
                assert!(false, "an illegal configuration (range without iter / range with table_inline / iter range on holes) is accepted");
            }
            None => {}
        }
    }

    // vacuity twin: the same harness shape without the legality assumption must be able to
    // reach the end (otherwise the stub or the assumptions make everything pass)
    #[cfg_attr(kani, kani::proof)]
    #[cfg_attr(kani, kani::unwind(8))]
    #[cfg_attr(kani, kani::stub(proc_macro_error::Diagnostic::abort, stub_abort))]
    pub fn h_witness_reaches_end() {
        let c = any_cfg();
        if let Some(f) = run_resolve(&c) {
            core::mem::forget(f);
            kani::cover!(true, "resolve returns for some configuration");
            kani::cover!(c.range, "resolve returns with range enabled");
        }
    }
}
