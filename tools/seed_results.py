#!/usr/bin/env python3
"""collects SEEDRUN lines (work_seed/summary*.txt) into seeded/results.json and prints the
markdown catch matrix for DESIGN.md"""
import json, os, re, sys, glob
SEEDED = "/verif/seeded"
OWN = {"r3A_m1": "C07", "r3A_m2": "C06", "r3A_m3": "C06", "r3A_m4": "C07", "r3B_m1": "C04", "r3B_m2": "C03", "r3B_m3": "C08",
       "r3B_m4": "C04", "r3C_m1": "C01", "r3C_m2": "C05", "r3C_m3": "C10", "r3C_m4": "C13", "r3C_m5": "C18"}
res = {}
rp = os.path.join(SEEDED, "results.json")
if os.path.exists(rp):
    res = json.load(open(rp))
def feed(path, label):
    for l in open(path):
        m = re.match(r"SEEDRUN (\S+) (\S+) rc=(\d+) violations=(\d+) time=(\d+)s", l)
        if not m:
            continue
        name, prop, rc, nv, t = m.group(1), m.group(2), int(m.group(3)), int(m.group(4)), int(m.group(5))
        out = "/verif/work_seed/out/%s__%s.out" % (name, prop)
        first = ""
        if os.path.exists(out):
            for ll in open(out):
                if ll.startswith("  what:"):
                    first = ll.strip()[6:300]
                    break
        verdict = "caught" if rc == 1 and nv > 0 else ("missed" if rc == 0 else "no verdict (exit %d)" % rc)
        res.setdefault(name, {}).setdefault(label, {})[prop] = {"verdict": verdict, "violation_lines": nv, "wall_s": t, "first_violation": first}
for path, label in [("/verif/work_seed/summary_round1_v1.txt", "v1"),
                    ("/verif/work_seed/summary_v2.txt", "v2"),
                    ("/verif/work_seed/summary_v3a.txt", "v3"),
                    ("/verif/work_seed/summary_v3b.txt", "v3"),
                    ("/verif/work_seed/summary_v4.txt", "v4")]:
    if os.path.exists(path):
        feed(path, label)
json.dump(res, open(rp, "w"), indent=1, sort_keys=True)
if "--md" in sys.argv:
    print("| change | breaks | v1 | v2 | v3 | v4 |")
    print("|---|---|---|---|---|---|")
    f = lambda d: ", ".join("%s: %s" % (p, d[p]["verdict"]) for p in sorted(d)) or "-"
    for name in sorted(res):
        print("| %s | %s | %s | %s | %s | %s |" % (name, OWN.get(name, name.split("_")[0]), f(res[name].get("v1", {})), f(res[name].get("v2", {})), f(res[name].get("v3", {})), f(res[name].get("v4", {}))))
