#!/bin/bash
# usage: seedrun.sh <name> <diff> <prop> [<prop> ...]
# applies a seeded change to /repo, runs the quick checks of the given properties, undoes it
set -u
NAME=$1; DIFF=$2; shift 2
mkdir -p /verif/work/seedruns
cd /repo || exit 2
if [ -n "$(git status --porcelain)" ]; then echo "repo not clean"; exit 2; fi
git apply "$DIFF" || { echo "cannot apply"; exit 2; }
cd /verif
for P in "$@"; do
  t0=$(date +%s)
  ./check $P --tier quick > /verif/work/seedruns/${NAME}__$P.out 2>&1; rc=$?
  t1=$(date +%s)
  nv=$(grep -c "^VIOLATION" /verif/work/seedruns/${NAME}__$P.out)
  echo "SEEDRUN $NAME $P rc=$rc violations=$nv time=$((t1-t0))s"
done
git -C /repo checkout -- .
