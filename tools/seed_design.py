#!/usr/bin/env python3
"""fills the catch matrix of DESIGN.md section 12 from seeded/results.json"""
import json, re
res = json.load(open("/verif/seeded/results.json"))
import importlib.util
spec = importlib.util.spec_from_file_location("sm", "/verif/tools/seed_meta.py"); sm = importlib.util.module_from_spec(spec); spec.loader.exec_module(sm)
OWN = {"r3A_m1": "C07", "r3A_m2": "C06", "r3A_m3": "C06", "r3A_m4": "C07", "r3B_m1": "C04", "r3B_m2": "C03", "r3B_m3": "C08",
       "r3B_m4": "C04", "r3C_m1": "C01", "r3C_m2": "C05", "r3C_m3": "C10", "r3C_m4": "C13", "r3C_m5": "C18"}


def how(d):
    # "h_try_from on k9_i128_gap [TF]: ..." -> harness + declaration
    s = d.get("first_violation", "") or ""
    m = re.match(r"\s*(\S+) on (\S+) \[(\S+)\]", s)
    if m:
        return "%s on %s [%s]" % m.groups()
    m = re.match(r"\s*(h_\w+): ", s)
    if m:
        return "Engine B %s" % m.group(1)
    if "index arithmetic wrong" in s:
        mm = re.search(r"#\[repr\((\w+)\)\] runs (\[[^\]]*\])", s)
        return "Engine C2 layout %s %s" % (mm.group(1), mm.group(2)) if mm else "Engine C2 layout"
    if "run decomposition wrong" in s:
        return "Engine C symbolic discriminants"
    if "does not compile" in s:
        mm = re.search(r"does not compile: (\S+) \[", s)
        if mm:
            return "rustc rejects the derive output for %s (compile pre-pass)" % mm.group(1)
        mm = re.search(r"documented combination does not compile: (#\[enum_tools\([^\]]*\)\])", s)
        return "base case %s rejected (rustc)" % (mm.group(1)[:60] if mm else "")
    return s.strip()[:60]
rows = ["| change | what it needs (short) | own property: v1 / v2 / v3 / v4 | caught by (latest run) |", "|---|---|---|---|"]
cross = ["| change | other property checked | verdict | caught by |", "|---|---|---|---|"]
for name in sorted(res):
    own = OWN.get(name, name.split("_")[0])
    needs = sm.DESC.get(name, ("", "", ""))[2]
    needs = needs[:110] + ("…" if len(needs) > 110 else "")
    vs = []
    latest = None
    for v in ("v1", "v2", "v3", "v4"):
        d = res[name].get(v, {}).get(own)
        vs.append(d["verdict"] if d else "–")
        if d:
            latest = d
    hw = ""
    for v in ("v4", "v3", "v2", "v1"):
        d = res[name].get(v, {}).get(own)
        if d and d.get("first_violation"):
            hw = how(d); break
    rows.append("| %s | %s | %s | %s |" % (name, needs, " / ".join(vs), hw or "(see seeded/%s/meta.json)" % name))
    for v in ("v4", "v3", "v2", "v1"):
        for prop, d in sorted(res[name].get(v, {}).items()):
            if prop != own:
                cross.append("| %s | %s | %s | %s |" % (name, prop, d["verdict"], how(d)))
txt = ("\n".join(rows) + "\n\nCross-property runs (does the check of a *different* property notice the change?  C10_a vs C09 is the "
       "expected negative: a configuration that stops compiling is skipped by the differential pairs and left to C10):\n\n" + "\n".join(cross))
s = open("/verif/DESIGN.md").read()
if "@MATRIX@" in s:
    s = s.replace("@MATRIX@", "<!-- matrix-start -->\n" + txt + "\n<!-- matrix-end -->")
else:
    s = re.sub(r"<!-- matrix-start -->.*?<!-- matrix-end -->", lambda m: "<!-- matrix-start -->\n" + txt + "\n<!-- matrix-end -->", s, flags=re.S)
open("/verif/DESIGN.md", "w").write(s)
print("matrix rows:", len(rows) - 2, "cross rows:", len(cross) - 2)
