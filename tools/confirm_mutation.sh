#!/bin/bash
# usage: confirm_mutation.sh <worktree> <diff> <demo.rs> <name>
# confirms: (1) existing suite passes with the change, (2) demo fails with it, (3) demo passes without
set -u
WT=$1; DIFF=$2; DEMO=$3; NAME=$4
cd "$WT" || exit 2
git checkout -q -- . ; rm -f tests/vt_demo_*.rs
git apply --check "$DIFF" || { echo "RESULT $NAME: diff does not apply"; exit 1; }
git apply "$DIFF"
suite=$(cargo test --workspace --no-fail-fast --offline 2>&1)
nfail=$(echo "$suite" | grep -E "^test result: FAILED|^error" | wc -l)
npass=$(echo "$suite" | grep -E "^test result: ok" | wc -l)
cp "$DEMO" tests/vt_demo_$NAME.rs
d1=$(cargo test --offline --test vt_demo_$NAME 2>&1); rc1=$?
git checkout -q -- src
d2=$(cargo test --offline --test vt_demo_$NAME 2>&1); rc2=$?
rm -f tests/vt_demo_$NAME.rs
git checkout -q -- .
echo "RESULT $NAME: suite_ok_lines=$npass suite_fail_lines=$nfail demo_with_mutation_rc=$rc1 demo_pristine_rc=$rc2"
echo "$d1" | grep -E "panicked|^error|test result" | head -5
