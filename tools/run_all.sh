#!/bin/bash
# usage: run_all.sh [quick|thorough] [ids...]   -- runs the registered checks sequentially against /repo
TIER=${1:-quick}; shift
IDS=${@:-C01 C05 C11 C13 C03 C18 C10 C08 C04 C07 C06 C09 C02}
mkdir -p /verif/work/runs
cd /verif
for P in $IDS; do
  t0=$(date +%s)
  ./check $P --tier $TIER > /verif/work/runs/${P}_$TIER.out 2>&1; rc=$?
  t1=$(date +%s)
  echo "RUN $P $TIER rc=$rc time=$((t1-t0))s $(grep -c '^VIOLATION' /verif/work/runs/${P}_$TIER.out) violations; $(tail -1 /verif/work/runs/${P}_$TIER.out | cut -c1-200)" | tee -a /verif/work/runs/summary_$TIER.txt
done
