#!/usr/bin/env python3
"""round 4: writes /verif/seeded/r4*/meta.json from the descriptions below and the SEEDRUN
lines in /verif/work_seed<k>/summary.txt (labels: v5 = framework with Engine C3, K10, k4_ids)."""
import glob, json, os, re
SEEDED = "/verif/seeded"
DESC = {
 "r4A_C02": ("C02", "src/feature/next_back_fn.rs (with holes): after the wrapping -1 only `current >= *r.0.start()` is tested",
             "an enum with holes whose MIN is the repr's minimum and whose MAX is not the repr's maximum: next_back(MIN) transmutes the wrapped value"),
 "r4A_C05": ("C05", "src/feature/next_fn.rs (gapless): `wrapping_add(1)` first, None only if the result is > MAX",
             "a gapless enum whose MAX is the repr's maximum: next(MAX) is Some(MIN) (whole-type enum) or transmutes a non-variant"),
 "r4A_C06": ("C06", "src/feature/iter/next_and_back.rs: an `nth` override with the exhaustion guard `n.saturating_add(1) >= self.len`",
             "nth(k) with k == len()-1 (exactly the last remaining element), iterator mode next_and_back"),
 "r4B_C07": ("C07", "src/feature/range_fn.rs (gapless, next_and_back): indices for len no longer rebased on MIN (`start as unsigned as usize`)",
             "signed repr, gapless enum straddling zero, iter(mode=next_and_back), range end points on opposite sides of zero"),
 "r4B_C08": ("C08", "src/feature/table_name.rs: the name table is built by joining the names as text and parsing that once",
             "a rename containing a backslash that forms a valid escape (\\t, \\n, \\\\): names() yields the unescaped character"),
 "r4C_C01": ("C01", "src/feature/try_from_fn.rs: u64 bitmask fast path for with-holes enums with MAX-MIN in 0..=64 (correct: 63)",
             "try_from function (not the trait), with-holes enum with MAX - MIN == 64 exactly, argument MAX: None"),
 "r4C_C03": ("C03", "src/parser/values.rs: default name = ident.to_string().trim_start_matches(&['r','#'][..]) (meant to strip r#)",
             "a non-renamed variant whose identifier starts with a lower-case r"),
 "r4C_C04": ("C04", "src/feature/from_str_fn.rs (table): early reject `s.len() > MAX_LEN` with MAX_LEN counted in chars",
             "from_str in table mode, a non-ASCII name whose byte length exceeds the largest char count of all names"),
 "r4D_C09": ("C09", "src/feature/iter/next_and_back.rs: direct-jump nth for gapless enums computed as `(fwd as repr) + (n as repr)`",
             "gapless i8 enum with more than 128 variants, iter(mode=next_and_back), nth(n) with n >= 128: overflow panic / wrong item while other modes are right"),
 "r4D_C10": ("C10", "src/feature/from_str_fn.rs check(): `min_const.enabled = is_gapless` (`=` instead of `|=`)",
             "enum with holes, user-requested MIN, from_str resolved to table and none of next_back/try_from/TryFrom/iter(next_and_back): MIN is not generated (E0599)"),
 "r4D_C11": ("C11", "src/parser/values.rs: digits parsed as i64 first, negated afterwards (re-introduces defect F3)",
             "a discriminant equal to i64::MIN"),
 "r4D_C13": ("C13", "src/parser/feature.rs: duplicate features are detected per attribute only, attributes merged with extend()",
             "the same feature in two separate #[enum_tools(..)] attributes: the last one silently wins (parser-level clause, outside the solver claim of C13)"),
}
res = {}
for sm in sorted(glob.glob("/verif/work_seed*/summary.txt")):
    sw = os.path.dirname(sm)
    for l in open(sm):
        m = re.match(r"SEEDRUN (r4\S+) (\S+) rc=(\d+) violations=(\d+) time=(\d+)s", l)
        if not m:
            continue
        name, prop, rc, nv, t = m.group(1), m.group(2), int(m.group(3)), int(m.group(4)), int(m.group(5))
        first = ""
        out = "%s/out/%s__%s.out" % (sw, name, prop)
        if os.path.exists(out):
            for ll in open(out):
                if ll.startswith("  what:"):
                    first = ll.strip()[6:300]
                    break
        verdict = "caught" if rc == 1 and nv > 0 else ("missed" if rc == 0 else "no verdict (exit %d)" % rc)
        if verdict.startswith("no verdict") and prop in res.get(name, {}):
            continue
        res.setdefault(name, {})[prop] = {"verdict": verdict, "violation_lines": nv, "wall_s": t, "first_violation": first}
extra = {}
ep = os.path.join(SEEDED, "r4_restricted.json")
if os.path.exists(ep):
    extra = json.load(open(ep))
for name, (prop, change, needs) in DESC.items():
    d = os.path.join(SEEDED, name)
    if not os.path.isdir(d):
        continue
    old = {}
    mp = os.path.join(d, "meta.json")
    if os.path.exists(mp):
        old = json.load(open(mp)).get("detection", {}).get("v5", {})
    old.update(res.get(name, {}))
    meta = {
        "id": name, "breaks_property": prop, "change": change, "needs_to_manifest": needs,
        "origin": "round 4: written by an independent sub-agent that saw only the property texts, a scratch worktree of /repo (HEAD 14b005f) and the list of mechanisms earlier rounds had used (to pick different ones); nothing from /verif",
        "files": sorted(f for f in os.listdir(d) if f != "meta.json"),
        "confirmed_by_me": {
            "how": "tools/confirm_mutation.sh in a scratch worktree: git apply patch; cargo test --workspace --no-fail-fast --offline; demo copied to tests/ and run with the change; git checkout -- src; demo run again (raw lines: seeded/runs/r4?_confirm.txt)",
            "existing_suite_with_change": "29 'test result: ok' lines, 0 failed",
            "demo_with_change": "fails", "demo_without_change": "passes",
        },
        "detection": {"v5": old},
    }
    if name in extra:
        meta["detection"]["v5_restricted"] = extra[name]
    json.dump(meta, open(mp, "w"), indent=1)
    print(name, prop, {p: v["verdict"] for p, v in old.items()}, extra.get(name, ""))
