#!/bin/bash
# usage: seedrun_wt.sh <seeded-name> <prop> [<prop>...]
# Runs the quick checks against a scratch worktree of /repo with the seeded change applied
# (VT_REPO override), so that /repo itself stays untouched and other work can go on.
set -u
NAME=$1; shift
WT=${WT:-/tmp/wt_seed}
SW=${SW:-/verif/work_seed}
mkdir -p $SW/out
if [ ! -d $WT ]; then git -C /repo worktree add --detach $WT HEAD -q || exit 2; fi
git -C $WT checkout -q --detach $(git -C /repo rev-parse HEAD) 2>/dev/null
git -C $WT checkout -q -- . ; git -C $WT clean -fdq
git -C $WT apply /verif/seeded/$NAME/patch.diff || { echo "SEEDRUN $NAME cannot apply"; exit 2; }
cd ${SNAP:-/verif}
for P in "$@"; do
  t0=$(date +%s)
  VT_REPO=$WT VT_WORK=$SW VT_EVIDENCE_DIR=$SW/evidence VT_REPLAYS=$SW/replays ./check $P --tier ${TIER:-quick} > $SW/out/${NAME}__$P.out 2>&1; rc=$?
  t1=$(date +%s)
  nv=$(grep -c "^VIOLATION" $SW/out/${NAME}__$P.out)
  echo "SEEDRUN $NAME $P rc=$rc violations=$nv time=$((t1-t0))s" | tee -a $SW/summary.txt
done
git -C $WT checkout -q -- .
