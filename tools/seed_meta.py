#!/usr/bin/env python3
"""writes /verif/seeded/<id>/meta.json from the descriptions below and the recorded
detection results (/verif/seeded/results.json, maintained by hand from seedrun summaries)."""
import json
import os

DESC = {
 "C01_a": ("C01", "src/parser/values.rs: `last` only updated when an explicit discriminant is not smaller than its predecessor, so a following implicit discriminant continues from the wrong value",
           "a declaration order with an explicit discriminant smaller than its predecessor followed by an implicit variant, e.g. #[repr(i8)] {A=5, B=1, C}: try_from(2) is None"),
 "C01_b": ("C01", "src/feature/try_from_fn.rs + try_from_trait.rs: gapless bound test rewritten as one wrapped compare with a trailing `as usize`",
           "a gapless enum with a 128-bit repr and an input a non-zero multiple of 2^64 away from a valid discriminant, e.g. try_from((1<<64)+1) is Some"),
 "C02_a": ("C02", "src/feature/next_fn.rs (with holes): after the wrapping +1 only the upper bound of the run is checked",
           "an enum with holes whose greatest variant equals repr::MAX and where repr::MIN is not a variant: next(MAX) transmutes repr::MIN (invalid enum value)"),
 "C02_b": ("C02", "src/feature/range_fn.rs (with holes): `break` after end_idx.write in the range-table scan",
           "range(a, b) with a > b and the two variants in different runs: start_idx is never written, assume_init reads uninitialised memory (only miri sees it)"),
 "C03_a": ("C03", "src/feature/as_str_fn.rs (table, holes): `as #repr_unsigned as usize` -> `as usize`",
           "as_str(mode=table) on a with-holes enum with a signed repr and a table index above the signed maximum, i.e. #[repr(i8)] with more than 128 variants"),
 "C03_b": ("C03", "src/parser/values.rs: rename takes the literal's source text (quotes stripped) instead of its value",
           "a rename literal containing an escape sequence (\\\", \\\\, \\n, \\u{..}) or a raw string"),
 "C04_a": ("C04", "src/feature/from_str_fn.rs (match mode): arms collected in a BTreeMap keyed by name, the last duplicate wins",
           "two variants renamed to the same string, the function (not the trait) in match mode, the shared name as input"),
 "C04_b": ("C04", "src/feature/from_str_trait.rs (table, gapless): MIN only added `if min_key > 0`",
           "FromStr in table mode on a gapless enum with a negative smallest discriminant: \"North\".parse() returns the variant shifted by -MIN"),
 "C05_a": ("C05", "src/feature/next_fn.rs (with holes): lower-bound check dropped after the wrapping +1 (same site as C02_a, found independently)",
           "an enum with holes whose last run ends at repr::MAX: next(MAX) is Some(first variant)/invalid instead of None"),
 "C05_b": ("C05", "src/parser/values.rs: `last = last.max(i)`: implicit discriminants continue from the running maximum",
           "an explicit discriminant lower than an earlier one directly followed by an implicit variant, e.g. {A=5, B=2, C}"),
 "C06_a": ("C06", "src/feature/iter/next_and_back.rs: next_back tests only its own cursor, not the shared remaining-count guard",
           "front has consumed elements the back cursor has not reached, then a back-side operation after the count hit 0 (e.g. next x4 then next_back) yields an already-yielded variant"),
 "C06_b": ("C06", "src/feature/iter/range.rs + range_fn.rs: RangeInclusive replaced by Range with end.wrapping_add(1)",
           "a gapless enum whose last variant equals repr::MAX in iter mode range/auto: iter() is empty"),
 "C07_a": ("C07", "src/feature/table_range.rs: parentheses around the run start dropped again (re-introduces F1)",
           "a with-holes enum with a signed repr where a run other than the first starts at a negative discriminant, range in next_and_back/table/auto mode"),
 "C07_b": ("C07", "src/feature/range_fn.rs (gapless next_and_back and table arms): `as #repr_unsigned as usize` -> `as usize`",
           "a gapless enum with a signed repr spanning at least half the type (>= 129 consecutive i8 variants), pairs straddling index 127/128"),
 "C08_a": ("C08", "src/feature/table_name.rs: name table re-sorted by `key as u64`",
           "a signed repr with both negative and non-negative discriminants: names() lists the non-negative ones first"),
 "C08_b": ("C08", "src/feature/names.rs: hand-written index-based names iterator whose nth_back overrun does not exhaust",
           "nth_back(n) with n >= remaining followed by another observation (len, next)"),
 "C09_a": ("C09", "src/feature/range_fn.rs (holes, next_and_back): MaybeUninit replaced by 0-initialised indices and the two `if`s merged into if/else-if",
           "range(a, b) with both end points in the same run of a with-holes enum, iter resolved to next_and_back (explicit or auto with iter+range); table mode is unaffected"),
 "C09_b": ("C09", "src/feature/from_str_fn.rs (match): one arm per name via BTreeMap, last duplicate wins (same idea as C04_a, found independently)",
           "duplicate names; from_str alone (auto -> match) vs from_str with names/as_str (auto -> table)"),
 "C10_a": ("C10", "src/generator/features.rs: the second dependency pass skips Debug/Display/IntoStr/range checks",
           "#[enum_tools(iter, range)] with iter on auto on an enum with holes: range table has no offsets (E0308)"),
 "C10_b": ("C10", "src/generator/features.rs resolve_auto: FromStr's auto guard reads from_str's mode",
           "FromStr on auto together with from_str in an explicit mode: the derive panics 'FromStrMode should've been resolved'"),
 "C11_a": ("C11", "src/parser/values.rs: `last = last.max(i)` (same as C05_b, found independently)",
           "an implicit variant following an explicit one that is lower than an earlier value"),
 "C11_b": ("C11", "src/parser/values.rs: the i64-overflow check hoisted to the top of the per-variant loop",
           "a variant at i64::MAX that is followed by a variant with an explicit discriminant: rejected with 'i64 overflow'"),
 "C13_a": ("C13", "src/feature/range_fn.rs: check() returns early for gapless enums (table_inline abort only in the with-holes path) and generate()'s unreachable arms return an empty token stream",
           "a gapless enum with iter(mode=\"table_inline\"), range: accepted, the range function is silently dropped"),
 "C13_b": ("C13", "src/feature/iter/range.rs check_range: holes test replaced by `max_key - min_key > num_values` (off by one)",
           "iter(mode=\"range\") on an enum with exactly one missing discriminant, e.g. {0,1,3}: accepted, iter() yields an invalid value"),
 "C18_a": ("C18", "src/parser/values.rs: ordered insert with a fast path keyed on the previously declared discriminant instead of the maximum",
           "a declaration order with an ascent after the maximum has been declared, e.g. A=0, B=9, D=1, C=2: the value list is unsorted"),
 "C18_b": ("C18", "src/parser/mod.rs: unsigned companion of u16/i16 is u8",
           "repr(u16)/repr(i16) with more than 256 variants and a consumer of the table index (as_str table, range)"),
 "C01_r2": ("C01", "src/parser/mod.rs: run-splitting loop rewritten with windows(2) and `cur.wrapping_sub(prev) > 1`",
            "two value-adjacent discriminants 2^63 or more apart (i64/i128/isize): the wrapped difference is negative, the runs are glued, the enum is treated as gapless and try_from transmutes hole values"),
 "C02_r2": ("C02", "src/feature/from_str_fn.rs (gapless table): `wrapping_sub(MIN)` instead of `wrapping_add(MIN)`",
            "a gapless enum with MIN != 0, the from_str function in table mode (explicit or auto with as_str/FromStr), a valid name: transmute of an invalid discriminant"),
 "C03_r2": ("C03", "src/feature/table_range.rs: parentheses around the run start dropped (re-introduces F1; third independent rediscovery)",
            "as_str table mode, with-holes enum, a later run starting at a negative value"),
 "C04_r2": ("C04", "src/feature/from_str_fn.rs (gapless table): `checked_add(MIN as repr)?` instead of wrapping_add",
            "from_str function in table mode on a gapless #[repr(i8)] enum with more than 128 variants: names at index >= 128 are rejected (None) while FromStr accepts them"),
 "C05_r2": ("C05", "src/feature/next_fn.rs (with holes): increment first, then one ascending pass taking the first run with end >= current",
            "a with-holes enum whose last run touches repr::MAX: next(MAX) wraps to repr::MIN and returns Some(first)"),
 "C06_r2": ("C06", "src/feature/iter/next_and_back.rs: next_back loses `self.len -= 1`",
            "next_and_back mode and a mixed history: next_back/nth_back followed by len, size_hint or a front operation"),
 "C07_r2": ("C07", "src/feature/table_range.rs: `ofs = e0 - b0 + 1` instead of `ofs += ...`",
            "an enum with at least three runs, range in next_and_back/table/auto mode, an end point in the third or a later run"),
 "C08_r2": ("C08", "src/feature/iter/mod.rs: rfold forwards to fold",
            "order-sensitive internal iteration from the back: names().rfold(..), .rev().fold/for_each/last"),
 "C09_r2": ("C09", "src/feature/table_range.rs: `ofs = e0 - b0 + 1` (same change as C07_r2, found independently)",
            "as_str resolved to table (explicit or steered by names / a second auto string feature) on a with-holes enum with at least three runs; match mode stays correct"),
 "C10_r2": ("C10", "src/feature/next_back_fn.rs (gapless): `self == Self::MIN` instead of comparing the reprs - needs PartialEq",
            "an enum that is only Copy (no PartialEq), gapless, with next_back or iter(mode=next_and_back)"),
 "C11_r2": ("C11", "src/parser/mod.rs: variant-count limit `>= u16::MAX - 1`",
            "an enum with exactly 65534 variants (the documented maximum) is rejected with 'too many values'"),
 "C13_r2": ("C13", "src/parser/mod.rs: consecutive-value test `i.wrapping_sub(last) > 1`",
            "two runs more than i64::MAX apart: classified gapless, so iter(mode=range) on an enum with holes is accepted"),
 "C18_r2": ("C18", "src/parser/values.rs: `negate` hoisted out of the per-variant block and never reset",
            "a negative explicit discriminant followed later by a positive explicit one: {A=-3, B=1, C=2} is parsed as {-3,-1,-2} but the permutation {B=1, C=2, A=-3} correctly"),
 "r3A_m1": ("C07", "src/feature/range_fn.rs (gapless next_and_back): indices lose `as usize`, the length `(end_idx - start_idx + 1) as usize` is computed in the 8-bit companion type",
            "mode next_and_back, gapless, u8/i8 with exactly 256 variants, range(MIN, MAX) exactly: overflow panic (dev) / len 0 (release)"),
 "r3A_m2": ("C06", "src/parser/values.rs: `last = last.max(i)` (fourth independent rediscovery)",
            "an explicit value below the running maximum directly followed by an implicit variant"),
 "r3A_m3": ("C06", "src/feature/iter/next_and_back.rs: adds `fn last(self) { self.bwd }`, ignoring len",
            "mode next_and_back, last() on an iterator that is empty but was not emptied purely from the back (drained by next/nth, met in the middle, or range(a,b) with a > b)"),
 "r3A_m4": ("C07", "src/feature/range_fn.rs (holes, table arm): start index `start_repr - *r.0.start()` instead of `start_repr - r.1`",
            "enum with holes, iter mode table, start variant in the second or a later run"),
 "r3B_m1": ("C04", "src/feature/from_str_trait.rs (table, holes): early-return loop replaced by `.zip().filter().map().last()`",
            "FromStr trait (not the function), table mode, enum with holes, two variants sharing a name: the LAST duplicate wins"),
 "r3B_m2": ("C03", "src/parser/values.rs: `name = name.to_lowercase()` inside `if sorted.name`",
            "the enum carries #[enum_tools(sorted(name))] and some name has an upper-case character: as_str / names are lower-cased"),
 "r3B_m3": ("C08", "src/feature/iter/mod.rs: last() = `nth(len - 1)`",
            "last() on a fully drained iterator (names(), and iter() in range/table/table_inline mode) with overflow checks on: panics instead of None"),
 "r3B_m4": ("C04", "src/feature/from_str_fn.rs (match): a HashSet skips arms 'whose name already has an arm' but is filled with identifiers",
            "from_str function in match mode; a variant whose rename equals the identifier of a lower-valued variant that is itself renamed"),
 "r3C_m1": ("C01", "src/parser/mod.rs: gapless decided by `(MAX - MIN) as u16 == count - 1`, the correctly computed runs are discarded",
            "an enum with holes and (MAX-MIN) mod 65536 == count-1, e.g. #[repr(u32)] {0, 65537}: try_from(1) transmutes"),
 "r3C_m2": ("C05", "src/feature/next_back_fn.rs (gapless): wrapping test `MIN <= self-1 <= MAX` instead of `self == MIN`",
            "a gapless enum covering the whole repr type (256-variant u8 or i8): next_back(MIN) is Some(MAX)"),
 "r3C_m3": ("C10", "src/feature/range_fn.rs: the gapless index helper builds a hard-coded `__MIN` ident instead of names.ident_min",
            "gapless enum, range, iter with explicit mode table/next_and_back and MIN enabled by the user: E0599"),
 "r3C_m4": ("C13", "src/feature/iter/range.rs: hole test rewritten as an adjacency check using chunks(2) instead of windows(2)",
            "iter(mode=range) on an enum whose holes all fall after an even number of variants, e.g. {0,1,3,4}: accepted"),
 "r3C_m5": ("C18", "src/feature/as_str_fn.rs (table, holes): `as #repr_unsigned` dropped (same slip as C03_a)",
            "signed 8/16-bit repr, with holes, as_str table, variant at position >= 128 / 32768"),
}

HERE = os.path.dirname(os.path.abspath(__file__))
SEEDED = os.path.join(os.path.dirname(HERE), "seeded")


def main():
    res = {}
    rp = os.path.join(SEEDED, "results.json")
    if os.path.exists(rp):
        res = json.load(open(rp))
    for name, (prop, change, needs) in DESC.items():
        d = os.path.join(SEEDED, name)
        if not os.path.isdir(d):
            continue
        files = sorted(os.listdir(d))
        meta = {
            "id": name, "breaks_property": prop, "change": change, "needs_to_manifest": needs,
            "origin": "written by an independent sub-agent that saw only the property text and a scratch worktree of /repo (HEAD 14b005f), nothing from /verif; round-2 agents (*_r2) were additionally told which mechanisms had already been used, so that they pick different ones",
            "files": [f for f in files if f != "meta.json"],
            "confirmed_by_me": {
                "how": "tools/confirm_mutation.sh in a scratch worktree: git apply patch; cargo test --workspace --no-fail-fast --offline (existing suite); demo copied to tests/ and run with the change; git checkout -- src; demo run again",
                "existing_suite_with_change": "29 'test result: ok' lines, 0 failed (48 tests + doc tests)",
                "demo_with_change": "fails" if name not in ("C13_a", "C13_b", "C02_b", "C13_r2") else
                                    ("contradictory configuration ACCEPTED (demo script)" if name.startswith("C13") else "cargo +nightly miri test reports 'Undefined Behavior: reading memory ... uninitialized' (native run passes)"),
                "demo_without_change": "passes" if not name.startswith("C13") else "REJECTED by the macro with the documented message",
            },
            "detection": res.get(name, {}),
        }
        json.dump(meta, open(os.path.join(d, "meta.json"), "w"), indent=1)
    print("wrote", len(DESC))


if __name__ == "__main__":
    main()
