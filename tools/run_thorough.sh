#!/bin/bash
# thorough tier of every check against /repo, evidence kept apart from the quick evidence
IDS=${@:-C05 C11 C13 C01 C03 C10 C08 C04 C18 C06 C07 C09 C02}
mkdir -p /verif/work/runs /verif/evidence_thorough
cd /verif
for P in $IDS; do
  t0=$(date +%s)
  VT_EVIDENCE_DIR=/verif/evidence_thorough ./check $P --tier thorough > /verif/work/runs/${P}_thorough.out 2>&1; rc=$?
  t1=$(date +%s)
  echo "RUN $P thorough rc=$rc time=$((t1-t0))s $(grep -c '^VIOLATION' /verif/work/runs/${P}_thorough.out) violations; $(tail -1 /verif/work/runs/${P}_thorough.out | cut -c1-220)" | tee -a /verif/work/runs/summary_thorough.txt
done
