"""check driver: generate -> compile pre-pass -> cargo kani -> classify -> replay -> evidence"""
import json
import os
import re
import shutil
import sys
import time
import concurrent.futures as cf

from . import kani as K
from . import replay as RP
from . import emit_l2 as E

VERIF = "/verif"
REPO = K.REPO


def log(*a):
    print(*a, flush=True)


class Violation:
    def __init__(self, prop, key, what, replay_path, detail=None):
        self.prop = prop
        self.key = key            # dict of role fields used for known-findings matching
        self.what = what
        self.replay = replay_path
        self.detail = detail or {}


class Report:
    def __init__(self, prop, tier, seed):
        self.prop = prop
        self.tier = tier
        self.seed = seed
        self.t0 = time.time()
        self.harness_results = {}   # hid -> dict
        self.violations = []
        self.unreproduced = []
        self.inconclusive = []
        self.skipped = []
        self.notes = []
        self.infra_errors = []
        self.engines = []
        self.functions = set()
        self.vccs = 0
        self.vccs_remaining = 0
        self.solver_s = 0.0
        self.symex_s = 0.0
        self.samples = []
        self.base_cases = []
        self.bounds = {}
        self.stubs = []
        self.corpus = []
        self.obligations_ok = set()
        self.discharged = 0
        self.tools = {}
        self.extra = {}


# ----------------------------------------------------------------------------------
# Engine A

def _module_line_ranges(text):
    lines = text.split("\n")
    r = {"decl": (0, 0), "wb": (10 ** 9, 10 ** 9)}
    start = end = None
    for i, l in enumerate(lines, 1):
        if start is None and (l.startswith("#[derive(") or l.startswith("#[enum_tools") or l.startswith("///") and False):
            start = i
        if start is not None and end is None and l == "}":
            end = i
            break
    # foreign attributes above the derive belong to the declaration as well
    if start:
        j = start - 1
        while j >= 1 and (lines[j - 1].startswith("#[") or lines[j - 1].startswith("///")) and "cfg(not(kani))" not in lines[j - 1] and "inline" not in lines[j - 1]:
            start = j
            j -= 1
    r["decl"] = (start or 0, end or 0)
    for i, l in enumerate(lines, 1):
        if l.startswith("pub mod wb {"):
            r["wb"] = (i, len(lines))
    return r


def prepass(rep, crate_dir, modules, compile_violation=True, extra_lib=""):
    """native cargo check; drops modules rustc rejects.  Returns the surviving modules."""
    with open(os.path.join(E.ROOT, "rs", "lib_prelude.rs")) as f:
        prelude = f.read()
    alive = list(modules)
    dropped_wb = set()
    for rnd in range(6):
        ok, errors, dt = K.native_check(crate_dir, log=os.path.join(os.path.dirname(crate_dir), "prepass_%d.log" % rnd))
        if ok and not errors:
            return alive
        if not errors:
            rep.infra_errors.append("native cargo check failed without diagnostics (see prepass log)")
            return []
        bymod = {}
        for e in errors:
            f = e.get("file") or ""
            mname = os.path.basename(f)[:-3] if f.endswith(".rs") else None
            bymod.setdefault(mname, []).append(e)
        names = {m.name: m for m in alive}
        progress = False
        for mname, errs in bymod.items():
            m = names.get(mname)
            if m is None:
                rep.infra_errors.append("compile error outside the generated modules: %s: %s" %
                                        (errs[0].get("file"), errs[0]["message"]))
                continue
            msg = "; ".join(sorted({e["message"] for e in errs}))[:600]
            if getattr(m, "role", "") == "pair":
                alive = [x for x in alive if x.name != m.name]
                progress = True
                rep.skipped.append({"module": m.name, "what": "differential pair dropped, one side does not compile (left to C10): " + msg})
                continue
            rng = _module_line_ranges(m.text(drop_sub=m.name in dropped_wb))
            kinds = set()
            for e in errs:
                ln = e["line"]
                if rng["decl"][0] <= ln <= rng["decl"][1]:
                    kinds.add("decl")
                elif ln >= rng["wb"][0]:
                    kinds.add("wb")
                else:
                    kinds.add("harness")
            msg = "; ".join(sorted({e["message"] for e in errs}))[:600]
            if kinds == {"wb"}:
                dropped_wb.add(m.name)
                m.harnesses = [h for h in m.harnesses if not h.sub]
                rep.skipped.append({"module": m.name, "what": "white-box (inductive) harnesses dropped: "
                                    "the iterator's private representation does not match (%s)" % msg})
                with open(os.path.join(crate_dir, "src", m.name + ".rs"), "w") as f:
                    f.write(m.text())
                progress = True
                continue
            alive = [x for x in alive if x.name != m.name]
            progress = True
            if "decl" in kinds:
                if compile_violation:
                    rpath = save_compile_replay(rep, m, errs)
                    rep.violations.append(Violation(
                        rep.prop,
                        {"kind": "compile", "decl": m.decl.name, "family": m.decl.family,
                         "bundle": m.bundle.name, "error": errs[0]["message"][:200]},
                        "derive output for an in-domain declaration does not compile: %s [%s] (%s)" %
                        (m.decl.name, m.bundle.describe(), msg), rpath,
                        {"errors": [e["message"] for e in errs][:5]}))
                else:
                    rep.skipped.append({"module": m.name, "what": "derive output does not compile (left to C10/C11): " + msg})
            else:
                rep.infra_errors.append("harness code of module %s does not compile against the "
                                        "derived items (signature/API change?): %s" % (m.name, msg))
        if not progress:
            return []
        E.write_lib(crate_dir, prelude, alive, extra_lib)
    rep.infra_errors.append("compile pre-pass did not converge")
    return []


def save_compile_replay(rep, m, errs):
    d = os.path.join(RP.REPLAYS, rep.prop, "compile_" + m.name)
    RP.write_replay_crate(d, m.name, m.header(), "kani::exhausted", [])
    with open(os.path.join(d, "README.txt"), "w") as f:
        f.write("This in-domain declaration is rejected by rustc after derive(EnumTools).\n"
                "Reproduce:  cd %s && cargo check --offline\n\n" % d)
        for e in errs[:5]:
            f.write((e.get("rendered") or e["message"]) + "\n")
    return d


def engine_a(rep, modules, harness_timeout, jobs=16, compile_violation=True, max_replays=6,
             crate_tag="a"):
    prop = rep.prop
    base = os.path.join(K.WORK, prop)
    crate_dir = os.path.join(base, "crate_" + crate_tag)
    os.makedirs(base, exist_ok=True)
    crate_name = "vt_%s_%s" % (prop.lower(), crate_tag)
    E.write_crate(crate_dir, crate_name, modules, repo=REPO)
    nh = sum(len(m.harnesses) for m in modules)
    log("[%s] engine A: %d modules, %d harnesses -> %s" % (prop, len(modules), nh, crate_dir))
    rep.engines.append("A")
    alive = prepass(rep, crate_dir, modules, compile_violation)
    if not alive:
        if not rep.violations:
            rep.infra_errors.append("no module survived the compile pre-pass")
        return
    ids = {}
    for m in alive:
        for hid, h in m.harness_ids().items():
            ids[hid] = (m, h)
    log("[%s] pre-pass ok: %d modules, %d harnesses; running cargo kani -j %d" % (prop, len(alive), len(ids), jobs))
    jpath = os.path.join(base, "kani_%s.json" % crate_tag)
    rc, out, dt, data = K.cargo_kani(crate_dir, jpath, harness_timeout, jobs=jobs,
                                     log=os.path.join(base, "kani_%s.log" % crate_tag))
    with open(os.path.join(E.ROOT, "rs", "lib_prelude.rs")) as f:
        prelude = f.read()
    for attempt in range(4):
        if data is not None:
            break
        # kani-compiler ICE (e.g. 128-bit niche): drop the module it was compiling and retry
        bad = None
        if "internal compiler error" in out:
            tail = out.split("internal compiler error", 1)[1][:8000]
            names = {m.name for m in alive}
            for cand in re.findall(r"([a-z0-9_]+__[a-z0-9_]+)::", tail):
                if cand in names:
                    bad = cand
                    break
        if not bad:
            break
        rep.skipped.append({"module": bad, "what": "kani-compiler internal error while compiling this module (tool limit, e.g. 128-bit niche); module dropped"})
        log("[%s] kani-compiler ICE in module %s: dropped, retrying" % (prop, bad))
        alive = [m for m in alive if m.name != bad]
        ids = {h: v for h, v in ids.items() if v[0].name != bad}
        E.write_lib(crate_dir, prelude, alive, "")
        rc, out, dt, data = K.cargo_kani(crate_dir, jpath, harness_timeout, jobs=jobs,
                                         log=os.path.join(base, "kani_%s_retry%d.log" % (crate_tag, attempt)))
    if data is None:
        rep.infra_errors.append("cargo kani produced no result file (rc=%s); see %s" %
                                (rc, os.path.join(base, "kani_%s.log" % crate_tag)))
        return
    _tools(rep, data)
    results = K.classify(data, out)
    # unwinding retries
    for rnd in range(2):
        need = [hid for hid, r in results.items() if r.status == "unwind" and hid in ids]
        if not need:
            break
        for hid in need:
            ids[hid][1].unwind = ids[hid][1].unwind * 2 + 2
        for m in {ids[h][0].name: ids[h][0] for h in need}.values():
            with open(os.path.join(crate_dir, "src", m.name + ".rs"), "w") as f:
                f.write(m.text())
        log("[%s] %d harnesses hit their unwinding assertion; re-running with a doubled bound" % (prop, len(need)))
        jp2 = os.path.join(base, "kani_%s_unwind%d.json" % (crate_tag, rnd))
        rc2, out2, dt2, data2 = K.cargo_kani(crate_dir, jp2, harness_timeout, jobs=jobs, harnesses=need,
                                             log=os.path.join(base, "kani_%s_unwind%d.log" % (crate_tag, rnd)))
        for hid, r in K.classify(data2, out2).items():
            results[hid] = r
    collect(rep, ids, results, out, crate_dir, harness_timeout, max_replays)


def _tools(rep, data):
    t = data.get("tools") or {}
    rep.tools.update({"kani": t.get("kani"), "cbmc": t.get("cbmc"), "rustc(kani)": t.get("rustc"),
                      "solver": ((t.get("solvers") or [{}])[0] or {}).get("name")})


def collect(rep, ids, results, out, crate_dir, harness_timeout, max_replays, stubbing=False,
            extra_lib="", extra_files=None, deps=None):
    prop = rep.prop
    candidates = []
    for hid, (m, h) in ids.items():
        r = results.get(hid)
        entry = {"harness": hid, "kind": h.kind, "decl": m.decl.name if m.decl else None,
                 "bundle": m.bundle.name if m.bundle else None, "unwind": h.unwind,
                 "symbolic": h.symbolic}
        if r is None:
            entry["status"] = "inconclusive"
            entry["reason"] = K.missing_reason(out, hid)
            rep.inconclusive.append(entry)
            rep.harness_results[hid] = entry
            continue
        entry.update({"status": r.status, "checks": r.n_checks, "time_s": round(r.duration_s, 2)})
        rep.functions |= r.functions
        rep.vccs += int(r.stats.get("vccs_generated") or 0)
        rep.vccs_remaining += int(r.stats.get("vccs_remaining") or 0)
        rep.solver_s += float(r.stats.get("runtime_decision_procedure_s") or 0)
        rep.symex_s += float(r.stats.get("runtime_symex_s") or 0)
        if r.status == "pass":
            bad = [c for c in h.covers if r.covers.get(c) != "Satisfied"]
            if bad:
                entry["status"] = "inconclusive"
                entry["reason"] = "vacuity witness not satisfied: %s" % bad
                rep.inconclusive.append(entry)
            else:
                rep.discharged += 1
                rep.obligations_ok.add((hid.rsplit("::", 1)[0], h.kind, h.fn))
        elif r.status == "fail":
            fails = r.failures
            if h.ub_only:
                fails = r.ub_failures or r.overflow_in_derived
                if not fails:
                    # ordinary panics are not undefined behaviour: recorded, left to C03/C05/C07
                    entry["status"] = "pass"
                    entry["non_ub_failures"] = [c.get("description") for c in r.failures][:4]
                    rep.discharged += 1
                    rep.obligations_ok.add((hid.rsplit("::", 1)[0], h.kind, h.fn))
                    rep.harness_results[hid] = entry
                    continue
            entry["failed_checks"] = [{"description": c.get("description"), "function": c.get("function"),
                                       "category": c.get("category")} for c in fails][:6]
            rep.discharged += 1
            candidates.append((hid, m, h, r, entry, fails))
        elif r.status == "unwind":
            entry["status"] = "inconclusive"
            entry["reason"] = "unwinding assertion still failing after retries (bound %d)" % h.unwind
            rep.inconclusive.append(entry)
        else:
            entry["reason"] = r.reason
            rep.inconclusive.append(entry)
        rep.harness_results[hid] = entry
    if not candidates:
        return
    log("[%s] %d harnesses report failing checks; replaying (at most %d) before anything is reported" %
        (prop, len(candidates), max_replays))
    # spread the replays over distinct (kind, failing description) classes first
    seen_cls = {}
    ordered = []
    for c in candidates:
        cls = (c[2].kind, c[5][0].get("description") if c[5] else "")
        seen_cls.setdefault(cls, []).append(c)
    while any(seen_cls.values()):
        for cls in list(seen_cls):
            if seen_cls[cls]:
                ordered.append(seen_cls[cls].pop(0))
    todo = ordered[:max_replays]
    rest = ordered[max_replays:]

    def do(c):
        return replay_candidate(rep, crate_dir, c, harness_timeout, stubbing, extra_lib, extra_files, deps)
    with cf.ThreadPoolExecutor(max_workers=3) as ex:
        outs = list(ex.map(do, todo))
    for c, (ok, path, why) in zip(todo, outs):
        hid, m, h, r, entry, fails = c
        desc = "; ".join(sorted({f.get("description", "") for f in fails}))[:300]
        key = {"kind": "harness", "harness": h.kind, "fn": h.fn, "decl": entry["decl"],
               "family": m.decl.family if m.decl is not None else None,
               "bundle": entry["bundle"], "check": desc,
               "gapless": m.decl.gapless if m.decl else None}
        key.update(getattr(m, "key_extra", {}) or {})
        if ok:
            entry["replay"] = path
            entry["replayed"] = why
            if entry.get("configuration"):
                key["configuration"] = entry["configuration"]
                what = "%s: %s -- %s" % (h.fn, desc, entry["configuration"])
            else:
                what = "%s on %s [%s]: %s" % (h.fn, entry["decl"], entry["bundle"], desc)
            pm = _panic_message(path)
            if pm:
                what += " -- native replay: " + pm
            rep.violations.append(Violation(prop, key, what, path, {"harness": hid}))
        else:
            entry["status"] = "unreproduced"
            entry["replay"] = path
            entry["reason"] = why
            rep.unreproduced.append(entry)
    for c in rest:
        hid, m, h, r, entry, fails = c
        entry["status"] = "candidate_not_replayed"
        rep.extra.setdefault("candidates_not_replayed", []).append(hid)


B_FIELDS = ["as_str", "Debug", "Display", "from_str", "FromStr", "into", "IntoStr", "Into", "iter", "MAX", "MIN",
            "names", "next_back", "next", "range", "try_from", "TryFrom"]


def decode_cfg(vals):
    """Engine B: the recorded kani::any() values in the field order of engine_b.rs::any_cfg"""
    try:
        flags = [v[0] != 0 for v in vals[:17]]
        modes = [v[0] for v in vals[17:21]]
        gapless = vals[21][0] != 0
        num = int.from_bytes(bytes(vals[22]), "little")
        size = int.from_bytes(bytes(vals[23]), "little")
        am = ["auto", "match", "table"]
        im = ["auto", "range", "next_and_back", "table", "table_inline"]
        parts = []
        for f, on in zip(B_FIELDS, flags):
            if not on:
                continue
            if f == "as_str" and modes[0]:
                parts.append('as_str(mode = "%s")' % am[modes[0]])
            elif f == "from_str" and modes[1]:
                parts.append('from_str(mode = "%s")' % am[modes[1]])
            elif f == "FromStr" and modes[2]:
                parts.append('FromStr(mode = "%s")' % am[modes[2]])
            elif f == "iter" and modes[3]:
                parts.append('iter(mode = "%s")' % im[modes[3]])
            else:
                parts.append(f)
        return "#[enum_tools(%s)] on a %s enum with %d variants, repr size %d" % (
            ", ".join(parts), "gapless" if gapless else "with-holes", num, size)
    except Exception:
        return None


def cfg_to_module(vals, prop, shape=0):
    """Engine B counterexample -> a real (declaration, bundle) module for compile confirmation"""
    from . import corpus as C
    flags = [v[0] != 0 for v in vals[:17]]
    modes = [v[0] for v in vals[17:21]]
    gapless = vals[21][0] != 0
    num = int.from_bytes(bytes(vals[22]), "little")
    size = int.from_bytes(bytes(vals[23]), "little")
    am = ["auto", "match", "table"]
    im = ["auto", "range", "next_and_back", "table", "table_inline"]
    feats = {}
    for f, on in zip(B_FIELDS, flags):
        if not on:
            continue
        md = {"as_str": am[modes[0]], "from_str": am[modes[1]], "FromStr": am[modes[2]], "iter": im[modes[3]]}.get(f)
        feats[f] = {"mode": md} if md and md != "auto" else None
    def i64(v):
        return int.from_bytes(bytes(v), "little", signed=True)
    lo, hi = (i64(vals[24]), i64(vals[25])) if len(vals) > 25 else (1, num)
    missing = (hi - lo + 1) - num          # number of absent discriminants between MIN and MAX
    n = max(1 if gapless else 2, min(num, 300))
    if gapless:
        values = list(range(lo, lo + n))
    else:
        missing = max(1, missing)
        top = lo + n - 1 + missing
        if top > C.I64_MAX:
            lo -= top - C.I64_MAX
            top = C.I64_MAX
        # where the missing discriminants sit is not part of Engine B's abstraction: try a few
        # placements (after the last-but-one variant, after the first, after the second, in
        # the middle) - the real macro has to behave for every one of them
        cut = [n - 1, 1, 2, n // 2, (n // 2) | 1][shape % 5]
        cut = max(1, min(n - 1, cut))
        values = list(range(lo, lo + cut)) + [v + missing for v in range(lo + cut, lo + n)]
    want = {1: "i8", 2: "i16", 4: "i32", 8: "i64", 16: "i128"}.get(size, "i32")
    repr_ = want
    if not all(C.rmin(want) <= v <= C.rmax(want) for v in values) or len(values) > 2 ** C.REPRS[want][0]:
        repr_ = "i64" if size != 16 else "i128"
    d = C.mk("cfg", repr_, values, "B", order="sorted", implicit="max")
    m = E.Module(d, C.Bundle("cfg", feats, split=1), prop)
    return m, (num != n or repr_ != want)


def confirm_cfg_by_compile(rep, rdir, vals, must_compile):
    """-> (confirmed, text).  The solver proposed a configuration; the REAL macro decides."""
    txt = ""
    seen = set()
    for shape in range(5):
        try:
            m, approx = cfg_to_module(vals, rep.prop, shape)
        except Exception as ex:
            return None, "cannot build a declaration for the configuration: %s" % ex
        key = tuple(m.decl.disc)
        if key in seen:
            continue
        seen.add(key)
        d = rdir + "_cfg"
        RP.write_replay_crate(d, m.name, m.header(), "kani::exhausted", [], repo=REPO)
        cmd = ["cargo", "build", "--offline", "--lib", "--target-dir", RP.REPLAY_TARGET]
        rc, out, dt = K.run(cmd, d, 900, log=os.path.join(d, "build.log"), limits=False)
        built = rc == 0
        txt = "real derive on #[repr(%s)] %s, discriminants %s: %s%s" % (
            m.decl.repr, m.bundle.describe(), m.decl.describe()["discriminants"],
            "compiles" if built else "is rejected / does not compile",
            " (number of variants capped / repr widened for the confirmation; the number of missing discriminants is kept)" if approx else "")
        confirmed = (not built) if must_compile else built
        if confirmed:
            return True, txt
        if m.decl.gapless:
            break
    return False, txt + " (and %d other placements of the missing discriminants)" % max(0, len(seen) - 1)


def replay_candidate(rep, crate_dir, cand, harness_timeout, stubbing, extra_lib, extra_files, deps=None):
    hid, m, h, r, entry, fails = cand
    prop = rep.prop
    case = re.sub(r"[^A-Za-z0-9_]+", "_", hid)
    rdir = os.path.join(RP.REPLAYS, prop, case)
    os.makedirs(os.path.join(K.WORK, prop), exist_ok=True)
    tests, pout = RP.concrete_values(crate_dir, hid, harness_timeout,
                                     os.path.join(K.WORK, prop, "playback_%s.log" % case), stubbing)
    if not tests:
        return False, rdir, "Kani printed no concrete values for the failing harness"
    ub = bool(r.ub_failures) or (h.ub_only and bool(r.overflow_in_derived))
    why = []
    for ti, vals in enumerate(tests[:4]):
        d = rdir if ti == 0 else rdir + "_%d" % ti
        RP.write_replay_crate(d, m.name, m.text(), hid, vals, repo=REPO, extra_lib=extra_lib,
                              extra_files=extra_files, deps=deps)
        if hid.startswith("hb::"):
            cfg = decode_cfg(vals)
            if cfg:
                entry["configuration"] = cfg
        with open(os.path.join(d, "README.txt"), "w") as f:
            f.write("Counterexample found by Kani/CBMC for %s\nfailing checks: %s\n"
                    "replay:  cd %s && cargo run --offline --bin replay   (add --release for the release profile)\n"
                    % (hid, json.dumps(entry.get("failed_checks"), indent=1), d))
        verdicts = {}
        profiles = ["dev", "release"] if not h.ub_only else ["release", "dev"]
        for prof in profiles:
            rc, out = RP.run_native(d, prof)
            verdicts[prof] = RP.verdict(rc, out)
        if h.ub_only:
            # C02: a dev-profile panic alone is not undefined behaviour.
            rc, out = RP.run_miri(d, release=True)
            v = "reproduced" if ("Undefined Behavior" in out) else RP.verdict(rc, out)
            verdicts["miri-release"] = "ub" if "Undefined Behavior" in out else v
            if verdicts["miri-release"] == "ub" or (verdicts["release"] == "reproduced" and "UB:" in out + str(entry.get("failed_checks"))):
                return True, d, "reproduced: %s" % verdicts
            # assertion 'UB: ... not a declared variant' reproduced natively in release?
            if verdicts["release"] == "reproduced":
                with open(os.path.join(d, "replay_release.log")) as f:
                    if "UB:" in f.read():
                        return True, d, "reproduced: %s" % verdicts
            why.append(str(verdicts))
            continue
        if "reproduced" in verdicts.values():
            if hid in ("hb::h_needs", "hb::h_resolve_illegal"):
                # the oracle of these two harnesses is hand-written (template-reference table,
                # legality rule): let the real macro confirm the proposed configuration
                ok, txt = confirm_cfg_by_compile(rep, d, vals, must_compile=(hid == "hb::h_needs"))
                entry["compile_confirmation"] = txt
                if ok is False:
                    return False, d, "the solver's configuration is handled correctly by the real macro (%s): the hand-written oracle is stale" % txt
            return True, d, "reproduced: %s" % verdicts
        # last resort: the solver's counterexample may rest on indeterminate (uninitialised)
        # memory, which a native run resolves to one arbitrary value; miri decides that
        rc, out = RP.run_miri(d, release=False)
        if "Undefined Behavior" in out:
            return True, d, "not reproduced natively, but miri reports undefined behaviour on this input: %s" % verdicts
        why.append(str(verdicts))
    return False, rdir, "counterexample did not reproduce natively: %s" % "; ".join(why)


def base_case_compile(rep, cases):
    """C10/C11 base cases: compile each documented combination (rustc, not the solver)"""
    base = os.path.join(K.WORK, rep.prop)
    crate_dir = os.path.join(base, "crate_bc")
    os.makedirs(base, exist_ok=True)
    E.write_crate(crate_dir, "vt_%s_bc" % rep.prop.lower(), cases, repo=REPO)
    with open(os.path.join(E.ROOT, "rs", "lib_prelude.rs")) as f:
        prelude = f.read()
    alive = list(cases)
    failed = {}
    for rnd in range(8):
        ok, errors, dt = K.native_check(crate_dir, log=os.path.join(base, "basecases_%d.log" % rnd))
        if ok and not errors:
            break
        names = {c.name: c for c in alive}
        progress = False
        bymod = {}
        for e in errors:
            f = e.get("file") or ""
            bymod.setdefault(os.path.basename(f)[:-3] if f.endswith(".rs") else None, []).append(e)
        for mname, errs in bymod.items():
            c = names.get(mname)
            if c is None:
                rep.infra_errors.append("base cases: error outside the generated modules: %s" % errs[0]["message"])
                continue
            rng = _module_line_ranges(c.text())
            in_decl = [e for e in errs if rng["decl"][0] <= e["line"] <= rng["decl"][1]]
            failed[c.name] = (c, errs, bool(in_decl))
            alive = [x for x in alive if x.name != c.name]
            progress = True
        if not progress:
            break
        E.write_lib(crate_dir, prelude, alive, "")
    for c in cases:
        entry = {"case": c.cid, "config": c.bundle.describe(), "shape": "gapless" if c.decl.gapless else "holes"}
        if c.name in failed:
            _, errs, in_decl = failed[c.name]
            msg = "; ".join(sorted({e["message"] for e in errs}))[:300]
            entry["result"] = "rejected" if in_decl else "derive accepted, use of the items failed"
            entry["error"] = msg
            if in_decl:
                d = os.path.join(RP.REPLAYS, rep.prop, "basecase_" + c.cid)
                RP.write_replay_crate(d, c.name, c.text(), "kani::exhausted", [])
                with open(os.path.join(d, "README.txt"), "w") as f:
                    f.write("documented combination rejected: %s\nreproduce: cd %s && cargo build --offline\n%s\n" %
                            (c.bundle.describe(), d, "\n".join((e.get("rendered") or e["message"]) for e in errs[:4])))
                case_role = re.sub(r"_[gh]$", "", c.cid)
                rep.violations.append(Violation(rep.prop, {"kind": "base_case", "case": case_role,
                                                           "shape": entry["shape"]},
                                                "documented combination does not compile: %s on a %s enum: %s" %
                                                (c.bundle.describe(), entry["shape"], msg), d))
            else:
                rep.notes.append("base case %s: derive accepted but the touch code failed (%s)" % (c.cid, msg))
        else:
            entry["result"] = "compiles"
        rep.base_cases.append(entry)
    rep.extra["base_cases_note"] = "compiled with rustc (cargo build), NOT a solver step; listed separately from the solver obligations"


# ----------------------------------------------------------------------------------
# known findings, evidence, exit code

def _panic_message(path):
    for prof in ("dev", "release"):
        try:
            with open(os.path.join(path, "replay_%s.log" % prof)) as f:
                txt = f.read()
        except OSError:
            continue
        m = re.search(r"panicked at [^\n]*\n([^\n]+)", txt)
        if m:
            return m.group(1).strip()[:200]
    return None


def load_known():
    p = os.path.join(VERIF, "known_findings.json")
    if not os.path.exists(p):
        return []
    with open(p) as f:
        return json.load(f).get("findings", [])


def match_known(v, known):
    for k in known:
        if k.get("status") != "known" or k.get("property") != v.prop:
            continue
        mt = k.get("match") or {}
        if mt and all(str(v.key.get(a)) == str(b) for a, b in mt.items()):
            return k
    return None


def cleanup_build_output(prop):
    """goto binaries of this check's harness crates (hundreds of MB per run, one directory per
    build hash) are not needed once the results are classified"""
    import glob
    for d in glob.glob(os.path.join(K.TARGET, "kani", "*", "debug", "build", "vt_%s_*" % prop.lower())):
        shutil.rmtree(d, ignore_errors=True)


def finish(rep, level_rule, assumptions, outside):
    cleanup_build_output(rep.prop)
    known = load_known()
    wall = time.time() - rep.t0
    unlisted = []
    hit = []
    for v in rep.violations:
        k = match_known(v, known)
        if k:
            hit.append((k, v))
        else:
            unlisted.append(v)
    seen = set()
    for k, v in hit:
        if k["id"] in seen:
            continue
        seen.add(k["id"])
        log("KNOWN-FINDING: property=%s %s" % (rep.prop, k.get("what", v.what)))
    for v in unlisted:
        log("VIOLATION property=%s replay=%s" % (rep.prop, v.replay))
        log("  what: %s" % v.what)
    for u in rep.unreproduced:
        log("UNREPRODUCED harness=%s (%s) -- not reported as a violation" % (u["harness"], u.get("reason")))
    for e in rep.infra_errors:
        log("INFRA: %s" % e)
    n_inc = len(rep.inconclusive)
    decided = rep.discharged
    samples = rep.samples[:]
    for hid, e in list(rep.harness_results.items()):
        if len(samples) >= 6:
            break
        if e.get("status") == "pass":
            cd = next((c for c in rep.corpus if c.get("decl") == e.get("decl")), {})
            samples.append({"obligation": hid, "declaration": e.get("decl"), "bundle": e.get("bundle"),
                            "repr": cd.get("repr"), "discriminants": cd.get("discriminants"),
                            "declaration_order": cd.get("declaration_order"),
                            "symbolic": e.get("symbolic"), "unwind": e.get("unwind"),
                            "checks": e.get("checks"), "time_s": e.get("time_s")})
    if not samples:
        samples = [{"note": "no obligation was discharged in this run"}]
    cov = {
        "evaluations": max(decided, 0),
        "distinct_nontrivial": len(rep.obligations_ok),
        "rule": level_rule,
        "samples": samples,
        "exhaustive": False,
        "engines": rep.engines,
        "functions_encoded": sorted(rep.functions)[:80],
        "bounds": rep.bounds,
        "queries": {"harnesses_decided": decided, "vccs_generated": rep.vccs,
                    "vccs_remaining_after_simplification": rep.vccs_remaining},
        "solver_time_s": round(rep.solver_s, 2),
        "symex_time_s": round(rep.symex_s, 2),
        "stubs": rep.stubs,
        "outside_bounds": outside,
        "corpus": rep.corpus,
        "inconclusive": [{"harness": e["harness"], "reason": e.get("reason")} for e in rep.inconclusive][:40],
        "n_inconclusive": n_inc,
        "skipped": rep.skipped[:40],
        "unreproduced": [{"harness": e["harness"], "reason": e.get("reason")} for e in rep.unreproduced],
        "base_cases": rep.base_cases,
        "known_findings_hit": sorted(seen),
        "violations": [{"what": v.what, "replay": v.replay, "key": v.key} for v in unlisted][:20],
        "infra_errors": rep.infra_errors[:10],
        "tools": rep.tools,
    }
    cov.update(rep.extra)
    ev = {"property_id": rep.prop, "tier": rep.tier, "seed": rep.seed, "level": "model_checking",
          "coverage": cov, "assumptions": assumptions, "wall_s": round(wall, 1),
          "violations": len(unlisted)}
    os.makedirs(K.EVIDENCE_DIR, exist_ok=True)
    with open(os.path.join(K.EVIDENCE_DIR, rep.prop + ".json"), "w") as f:
        json.dump(ev, f, indent=1, sort_keys=False)
    log("[%s] %s tier: %d obligations discharged (%d distinct non-trivial), %d inconclusive, %d violations (%d known), "
        "%d unreproduced, %.0fs wall, solver %.1fs" % (rep.prop, rep.tier, decided, len(rep.obligations_ok), n_inc,
                                                     len(unlisted), len(hit), len(rep.unreproduced), wall, rep.solver_s))
    if unlisted:
        return 1
    if rep.infra_errors or rep.unreproduced:
        return 2
    if decided == 0 and not rep.base_cases:
        log("INFRA: nothing was decided")
        return 2
    if n_inc > max(3, 0.25 * (decided + n_inc)):
        log("INFRA: too many inconclusive obligations (%d of %d)" % (n_inc, decided + n_inc))
        return 2
    return 0
