"""Counterexample replay: Kani concrete playback -> native run against the real derive."""
import os
import re
import shutil
from . import kani as K
from .emit_l2 import CARGO_TOML, ROOT

REPLAYS = os.environ.get("VT_REPLAYS", "/verif/replays")
REPLAY_TARGET = os.path.join(K.WORK, "target-replay")


def concrete_values(crate_dir, hid, harness_timeout, log, stubbing=False):
    """re-run one harness with concrete playback; returns list of value-vectors (one per
    generated test)"""
    cmd = ["cargo", "kani", "-Z", "unstable-options", "-Z", "concrete-playback", "--concrete-playback=print",
           "--harness", hid, "--exact", "--output-format", "terse",
           "--harness-timeout", "%ds" % harness_timeout, "--target-dir", K.TARGET]
    if stubbing:
        cmd += ["-Z", "stubbing"]
    rc, out, dt = K.run(cmd, crate_dir, harness_timeout + 900, log=log)
    tests = []
    # one unit test is printed per failed check AND per satisfied cover: keep the former
    for kind, block in re.findall(r"/// Check for `([^`]*)`.*?let concrete_vals: Vec<Vec<u8>> = vec!\[(.*?)\n\s*\];", out, re.S):
        if kind == "cover":
            continue
        vals = []
        for v in re.findall(r"vec!\[([0-9,\s]*)\]", block):
            vals.append([int(x) for x in v.replace(" ", "").split(",") if x != ""])
        tests.append(vals)
    # de-duplicate
    uniq = []
    for t in tests:
        if t not in uniq:
            uniq.append(t)
    return uniq, out


def write_replay_crate(dirpath, module, mod_text, harness_path, vals, repo="/repo", extra_lib="",
                       extra_files=None, deps=None):
    if os.path.isdir(dirpath):
        shutil.rmtree(dirpath)
    os.makedirs(os.path.join(dirpath, "src"))
    with open(os.path.join(dirpath, "Cargo.toml"), "w") as f:
        f.write(CARGO_TOML % {"name": "vt_replay", "deps": deps or ('enum-tools = { path = "%s" }' % repo),
                              "bin": '\n[[bin]]\nname = "replay"\npath = "src/replay.rs"\n'})
    lock = os.path.join(repo, "Cargo.lock")
    if os.path.exists(lock):
        shutil.copy(lock, os.path.join(dirpath, "Cargo.lock"))
    with open(os.path.join(ROOT, "rs", "lib_prelude.rs")) as f:
        prelude = f.read()
    with open(os.path.join(dirpath, "src", "lib.rs"), "w") as f:
        f.write(prelude + "\n" + extra_lib + "\npub mod %s;\n" % module)
    with open(os.path.join(dirpath, "src", module + ".rs"), "w") as f:
        f.write(mod_text)
    for name, txt in (extra_files or {}).items():
        with open(os.path.join(dirpath, "src", name), "w") as f:
            f.write(txt)
    vtxt = ",\n        ".join("vec![%s]" % ", ".join(str(b) for b in v) for v in vals)
    with open(os.path.join(dirpath, "src", "replay.rs"), "w") as f:
        f.write("""// replays one solver counterexample against the real derive output
fn main() {
    let vals: Vec<Vec<u8>> = vec![
        %s
    ];
    vt_replay::kani::load(vals);
    vt_replay::%s();
    println!("REPLAY-PASS: the harness returned without failing");
}
""" % (vtxt, harness_path))


def run_native(dirpath, profile, timeout=900):
    cmd = ["cargo", "run", "--offline", "--quiet", "--bin", "replay", "--target-dir", REPLAY_TARGET]
    if profile == "release":
        cmd.insert(2, "--release")
    rc, out, dt = K.run(cmd, dirpath, timeout, log=os.path.join(dirpath, "replay_%s.log" % profile),
                        limits=False)
    return rc, out


def run_miri(dirpath, release=True, timeout=1800):
    cmd = ["cargo", "+nightly", "miri", "run", "--offline", "--quiet", "--bin", "replay",
           "--target-dir", os.path.join(K.WORK, "target-miri")]
    if release:
        cmd.insert(4, "--release")
    rc, out, dt = K.run(cmd, dirpath, timeout,
                        log=os.path.join(dirpath, "replay_miri%s.log" % ("_release" if release else "")),
                        limits=False, extra_env={"MIRIFLAGS": "-Zmiri-disable-isolation"})
    return rc, out


def verdict(rc, out):
    """'reproduced' | 'pass' | 'mismatch' | 'builderror'"""
    if rc == 0 and "REPLAY-PASS" in out:
        return "pass"
    if rc in (3, 4) and "REPLAY-" in out:
        return "mismatch"
    if "error: could not compile" in out or "error[E" in out:
        return "builderror"
    if rc != 0:
        return "reproduced"
    return "pass"
