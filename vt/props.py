"""Per-property plans: which declarations x bundles x harness kinds (Engine A)."""
from . import corpus as C
from . import emit_l2 as E
from .corpus import BUNDLES


def _decls(tier, seed, fams, k8n=(2, 12)):
    th = tier == "thorough"
    out = []
    if "K1" in fams:
        out += C.k1()
    if "K2" in fams:
        out += C.k2()
    if "K3" in fams:
        out += C.k3()
    if "K4" in fams:
        out += C.k4()
    if "K5" in fams:
        out += C.k5(th)
    if "K6" in fams:
        out += C.k6()
    if "K8" in fams:
        out += C.k8(seed, k8n[1] if th else k8n[0])
    if not th:
        out = [d for d in out if d.tier == "q"]
    return out


def _mods(decls, bundle_names, prop, fill, per_decl=None):
    """fill(module) adds harnesses; modules without harnesses are dropped"""
    mods = []
    for d in decls:
        names = per_decl(d) if per_decl else bundle_names
        for b in C.bundles_for(d, names):
            m = E.Module(d, b, prop)
            fill(m)
            if m.harnesses:
                mods.append(m)
    return mods


# ----------------------------------------------------------------------------------

def plan_C01(tier, seed):
    decls = _decls(tier, seed, ["K1", "K2", "K3", "K5", "K6", "K8"])

    def fill(m):
        m.add(E.h_try_from(m))
        m.add(E.h_into(m))

    def per(d):
        # the conversions do not depend on the configuration beyond gapless/holes and
        # whether the range table carries offsets
        if tier == "thorough":
            return ["TF", "TFo"]
        return ["TFo"] if (not d.gapless and d.family in ("K2", "K5")) else ["TF"]
    return _mods(decls, None, "C01", fill, per)


def plan_C05(tier, seed):
    decls = _decls(tier, seed, ["K1", "K2", "K3", "K5", "K6", "K8"])

    def fill(m):
        m.add(E.h_minmax_next(m))

    def per(d):
        if tier == "thorough":
            return ["NX", "NXo"]
        return ["NXo"] if (not d.gapless and d.family in ("K2",)) else ["NX"]
    return _mods(decls, None, "C05", fill, per)


def plan_C03(tier, seed):
    decls = _decls(tier, seed, ["K1", "K2", "K3", "K4", "K5", "K8"])
    th = tier == "thorough"

    def fill(m):
        m.add(E.h_as_str(m))
        if m.decl.n <= 40 or th:
            m.add(E.h_fmt(m))

    def per(d):
        if th:
            return ["ASm", "ASt", "ASa", "ASa2", "ASn"]
        if d.family == "K3":
            return ["ASt"]
        if d.family == "K5":
            return ["ASt", "ASm"]
        if d.family in ("K1", "K4"):
            return ["ASm", "ASt", "ASa", "ASa2"]
        return ["ASt", "ASm", "ASa2"]
    return _mods(decls, None, "C03", fill, per)


def plan_C04(tier, seed):
    th = tier == "thorough"
    decls = _decls(tier, seed, ["K1", "K4", "K8"])
    k2 = [d for d in C.k2() if d.name in ("k2_i8", "k2_u8", "k2_i8_mid", "k2_i64", "k2_u64")]
    k3 = [d for d in C.k3() if d.name in ("k3_i8_lo", "k3_u8_hi", "k3_i64_lo", "k3_i8_zero")]
    decls += k2 + k3
    if th:
        decls += [d for d in C.k5(False) if d.n <= 140]
    L = 8 if th else 4

    def fill(m):
        m.add(E.h_from_str_pos(m))
        if m.decl.n <= (12 if th else 6):
            Lm = min(L, m.decl.max_name_len + 1)
            m.add(E.h_from_str_sym(m, max(Lm, 2)))

    def per(d):
        if th:
            return ["FSm", "FSt", "FSa", "FSx1", "FSx2", "FSa1", "FSa1t"]
        if d.family in ("K1", "K4"):
            return ["FSm", "FSt", "FSa", "FSx1", "FSx2"]
        return ["FSt", "FSx1"]
    return _mods(decls, None, "C04", fill, per)


def _iter_fill(src, th):
    def fill(m):
        d = m.decl
        wbp, wbs = E.wb_next_and_back(m) if src != "names" else (None, [])
        big = d.n > 40
        if wbs:
            m.sub_prelude["wb"] = wbp
            for h in wbs:
                if src == "iter" and h.fn == "h_init_range":
                    continue
                if h.fn == "h_step_nth" and big:
                    continue
                m.add(h)
        slow = m.bundle.mode("iter") in ("next_and_back", "auto") and src != "names"
        if src in ("iter", "names"):
            m.add(E.h_content(m, src))
            if not big:
                S = 3 if not th else 4
                if slow:
                    S = (2 if d.n <= 6 else 1) + (1 if th else 0)
                m.add(E.h_iter_ops(m, src, S))
            if d.n <= 8:
                m.add(E.h_consume(m, src))
            if src == "names":
                m.add(E.h_zip(m))
        else:
            m.add(E.h_content(m, "range"))
            if not big:
                S = 2 if not th else 3
                if slow:
                    S = 1 if not th else 2
                m.add(E.h_iter_ops(m, "iter", S, from_range=True))
            if d.n <= 6:
                m.add(E.h_consume(m, "range"))
    return fill


def plan_C06(tier, seed):
    th = tier == "thorough"
    decls = _decls(tier, seed, ["K1", "K2", "K3", "K5", "K8"])

    def per(d):
        allb = ["ITr", "ITn", "ITt", "ITi", "ITa", "ITaf"]
        if th:
            return allb
        if d.family == "K5":
            return ["ITn", "ITt", "ITr"]
        if d.family == "K3":
            # gapless: rotate the modes over the members
            i = sum(map(ord, d.name)) % 3
            return [["ITr", "ITa"], ["ITn", "ITi"], ["ITt", "ITr"]][i]
        return ["ITn", "ITt", "ITi", "ITa", "ITaf"] if d.family in ("K1", "K8") or d.repr in ("i8", "u64", "isize", "i32") else ["ITn", "ITt"]
    return _mods(decls, None, "C06", _iter_fill("iter", th), per)


def plan_C07(tier, seed):
    th = tier == "thorough"
    decls = _decls(tier, seed, ["K1", "K2", "K3", "K5", "K8"])

    def per(d):
        allb = ["RGr", "RGn", "RGt", "RGa", "RGaf"]
        if th:
            return allb
        if d.family == "K5":
            return ["RGn", "RGt", "RGr"]
        if d.family == "K3":
            i = sum(map(ord, d.name)) % 3
            return [["RGr", "RGa"], ["RGn"], ["RGt", "RGr"]][i]
        return allb if d.family in ("K1", "K8") or d.repr in ("i8", "u64", "isize", "i16") else ["RGn", "RGt"]
    return _mods(decls, None, "C07", _iter_fill("range", th), per)


def plan_C08(tier, seed):
    th = tier == "thorough"
    decls = _decls(tier, seed, ["K1", "K4", "K5", "K8"])
    decls += [d for d in C.k2() if th or d.name in ("k2_i8", "k2_u16", "k2_i64", "k2_i8_mid")]
    decls += [d for d in C.k3() if d.name in ("k3_i8_lo", "k3_u64_hi", "k3_i16_zero")]

    def per(d):
        if th:
            return ["NM", "NMx", "NMt", "NMn"]
        if d.family == "K5":
            return ["NMt"]
        return ["NM", "NMx", "NMt"] if d.family in ("K1", "K4") else ["NMx", "NMn"]
    return _mods(decls, None, "C08", _iter_fill("names", th), per)


def plan_C02(tier, seed):
    th = tier == "thorough"
    decls = _decls(tier, seed, ["K1", "K2", "K3", "K8"])
    decls += [d for d in C.k5(th) if d.name in ("k5_i16_300", "k5_i8_138") or th]
    decls += [d for d in C.k4() if d.name in ("k4_dup", "k4_dup_h", "k4_esc_h")]

    def fill(m):
        for h in E.h_ub(m):
            m.add(h)
        wbp, wbs = E.wb_next_and_back(m)
        if wbs:
            m.sub_prelude["wb"] = wbp
            for h in wbs:
                if h.fn in ("h_step_next", "h_step_next_back", "h_init_range"):
                    h.ub_only = False
                    m.add(h)

    def per(d):
        if th:
            return ["M", "T", "R", "I", "A"]
        if d.family == "K3":
            i = sum(map(ord, d.name)) % 3
            return [["R", "T"], ["M", "A"], ["T", "I"]][i]
        if d.family == "K5":
            return ["M", "T"]
        return ["M", "T", "A"] if d.repr in ("i8", "u8", "i64", "u64", "isize", "i16") else ["M", "T"]
    return _mods(decls, None, "C02", fill, per)


def plan_C11(tier, seed):
    decls = C.k6()
    if tier != "thorough":
        decls = [d for d in decls if d.tier == "q"]

    def fill(m):
        m.add(E.h_try_from(m))
        m.add(E.h_into(m))
        m.add(E.h_minmax_next(m))
        m.add(E.h_as_str(m))
        if m.has("iter"):
            m.add(E.h_content(m, "iter"))
    return _mods(decls, ["A", "M"] if tier == "thorough" else ["A"], "C11", fill)


PLANS = {"C01": plan_C01, "C02": plan_C02, "C03": plan_C03, "C04": plan_C04, "C05": plan_C05,
         "C06": plan_C06, "C07": plan_C07, "C08": plan_C08, "C11": plan_C11}
