"""Per-property plans: which declarations x bundles x harness kinds (Engine A)."""
from . import corpus as C
from . import emit_l2 as E
from .corpus import BUNDLES


def _decls(tier, seed, fams, k8n=(2, 12)):
    th = tier == "thorough"
    out = []
    if "K1" in fams:
        out += C.k1()
    if "K2" in fams:
        out += C.k2()
    if "K3" in fams:
        out += C.k3()
    if "K4" in fams or "K4I" in fams:
        out += [d for d in C.k4() if d.family in fams]
    if "K5" in fams:
        out += C.k5(th)
    if "K6" in fams:
        out += C.k6()
    if "K9" in fams:
        out += C.k9()
    if "K10" in fams:
        out += C.k10()
    if "KS" in fams:
        out += C.ks()
    if "K8" in fams:
        out += C.k8(seed, k8n[1] if th else k8n[0])
    if not th:
        out = [d for d in out if d.tier == "q"]
    return out


def _mods(decls, bundle_names, prop, fill, per_decl=None):
    """fill(module) adds harnesses; modules without harnesses are dropped"""
    mods = []
    for d in decls:
        names = per_decl(d) if per_decl else bundle_names
        for b in C.bundles_for(d, names):
            m = E.Module(d, b, prop)
            fill(m)
            if m.harnesses:
                mods.append(m)
    return mods


# ----------------------------------------------------------------------------------

def plan_C01(tier, seed):
    decls = _decls(tier, seed, ["K1", "K2", "K3", "K5", "K6", "K8", "K9", "K10"])

    def fill(m):
        m.add(E.h_try_from(m))
        m.add(E.h_into(m))

    def per(d):
        # the conversions do not depend on the configuration beyond gapless/holes and
        # whether the range table carries offsets
        if tier == "thorough":
            return ["TF", "TFo"]
        return ["TFo"] if (not d.gapless and d.family in ("K2", "K5")) else ["TF"]
    return _mods(decls, None, "C01", fill, per)


def plan_C05(tier, seed):
    decls = _decls(tier, seed, ["K1", "K2", "K3", "K5", "K6", "K8", "K9", "K10"])

    def fill(m):
        m.add(E.h_minmax_next(m))

    def per(d):
        if tier == "thorough":
            return ["NX", "NXo"]
        return ["NXo"] if (not d.gapless and d.family in ("K2",)) else ["NX"]
    return _mods(decls, None, "C05", fill, per)


def plan_C03(tier, seed):
    decls = _decls(tier, seed, ["K1", "K2", "K3", "K4", "K5", "K8", "K9", "K4I", "KS"])
    th = tier == "thorough"

    def fill(m):
        m.add(E.h_as_str(m))
        if m.decl.n <= 40 or th:
            m.add(E.h_fmt(m))

    def per(d):
        if th:
            return ["ASm", "ASt", "ASa", "ASa2", "ASn"]
        if d.family == "K3":
            return ["ASt"]
        if d.family == "K5":
            return ["ASt", "ASm"]
        if d.family in ("K1", "K4"):
            return ["ASm", "ASt", "ASa", "ASa2"]
        return ["ASt", "ASm", "ASa2"]
    return _mods(decls, None, "C03", fill, per)


def plan_C04(tier, seed):
    th = tier == "thorough"
    decls = _decls(tier, seed, ["K1", "K4", "K8", "K9", "KS"])
    k2 = [d for d in C.k2() if d.name in ("k2_i8", "k2_u8", "k2_i8_mid", "k2_i64", "k2_u64")]
    k3 = [d for d in C.k3() if d.name in ("k3_i8_lo", "k3_u8_hi", "k3_i64_lo", "k3_i8_zero")]
    decls += k2 + k3
    if th:
        decls += [d for d in C.k5(False) if d.n <= 40]
    L = 8 if th else 4

    def fill(m):
        m.add(E.h_from_str_pos(m))
        if m.decl.n <= (12 if th else 6) and (th or m.decl.max_name_len <= 8):
            Lm = min(L, m.decl.max_name_len + 1)
            m.add(E.h_from_str_sym(m, max(Lm, 2)))

    def per(d):
        if th:
            return ["FSm", "FSt", "FSa", "FSx1", "FSx2", "FSa1", "FSa1t"]
        if d.family in ("K1", "K4"):
            return ["FSm", "FSt", "FSa", "FSx1", "FSx2"]
        if d.family == "K5":
            return ["FSt"]
        return ["FSt", "FSx1"]
    return _mods(decls, None, "C04", fill, per)


def _iter_fill(src, th):
    def fill(m):
        d = m.decl
        wbp, wbs = E.wb_next_and_back(m) if src != "names" else (None, [])
        big = d.n > 40
        if wbs:
            m.sub_prelude["wb"] = wbp
            for h in wbs:
                if src == "iter" and h.fn == "h_init_range":
                    continue
                if h.fn == "h_step_nth" and (big or (not th and d.family == "K2" and d.repr not in ("i8", "u64", "isize"))):
                    continue
                m.add(h)
        slow = m.bundle.mode("iter") in ("next_and_back", "auto") and src != "names"
        if src in ("iter", "names"):
            m.add(E.h_content(m, src))
            if not big:
                S = 3 if not th else 4
                if slow:
                    S = (2 if d.n <= 6 else 1) + (1 if th else 0)
                m.add(E.h_iter_ops(m, src, S))
            if d.n <= (8 if th else 5):
                m.add(E.h_consume(m, src))
            if src == "names":
                m.add(E.h_zip(m))
        else:
            m.add(E.h_content(m, "range"))
            if not big:
                S = 2 if not th else 3
                if slow:
                    S = 1 if not th else 2
                # next_and_back with the inductive step available: the black-box sequence adds
                # nothing in the quick tier
                if th or not (wbs and m.bundle.mode("iter") == "next_and_back"):
                    m.add(E.h_iter_ops(m, "iter", S, from_range=True))
            if d.n <= (6 if th else 4):
                m.add(E.h_consume(m, "range"))
    return fill


def plan_C06(tier, seed):
    th = tier == "thorough"
    decls = _decls(tier, seed, ["K1", "K2", "K3", "K5", "K8", "K9"])

    def per(d):
        allb = ["ITr", "ITn", "ITt", "ITi", "ITa", "ITaf"]
        if th:
            return allb
        if d.family == "K5":
            return ["ITn", "ITt", "ITr"]
        if d.family == "K3":
            # gapless: rotate the modes over the members
            i = sum(map(ord, d.name)) % 3
            return [["ITr", "ITa"], ["ITn", "ITi"], ["ITt", "ITr"]][i]
        return ["ITn", "ITt", "ITi", "ITa", "ITaf"] if d.family in ("K1", "K8") or d.repr in ("i8", "u64", "isize", "i32") else ["ITn", "ITt"]
    return _mods(decls, None, "C06", _iter_fill("iter", th), per)


def plan_C07(tier, seed):
    th = tier == "thorough"
    decls = _decls(tier, seed, ["K1", "K2", "K3", "K5", "K8", "K9"])

    def per(d):
        allb = ["RGr", "RGn", "RGt", "RGa", "RGaf"]
        if th:
            return allb
        if d.family == "K5":
            # the 300-variant next_and_back modules cost minutes; the inductive step on the
            # smaller big enums and Engine C2 cover that arithmetic
            return ["RGt", "RGr"] if d.n >= 300 else ["RGn", "RGt", "RGr"]
        if d.family == "K3":
            i = sum(map(ord, d.name)) % 3
            return [["RGr", "RGa"], ["RGn"], ["RGt", "RGr"]][i]
        return allb if d.family in ("K1", "K8") or d.repr in ("i8", "u64", "i128") else ["RGn", "RGt"]
    return _mods(decls, None, "C07", _iter_fill("range", th), per)


def plan_C08(tier, seed):
    th = tier == "thorough"
    decls = _decls(tier, seed, ["K1", "K4", "K5", "K8", "K9", "K4I", "KS"])
    decls += [d for d in C.k2() if th or d.name in ("k2_i8", "k2_u16", "k2_i64", "k2_i8_mid")]
    decls += [d for d in C.k3() if d.name in ("k3_i8_lo", "k3_u64_hi", "k3_i16_zero")]

    def per(d):
        if th:
            return ["NM", "NMx", "NMt", "NMn"]
        if d.family == "K5":
            return ["NMt"]
        return ["NM", "NMx", "NMt"] if d.family in ("K1", "K4") else ["NMx", "NMn"]
    return _mods(decls, None, "C08", _iter_fill("names", th), per)


def plan_C02(tier, seed):
    th = tier == "thorough"
    decls = _decls(tier, seed, ["K1", "K2", "K3", "K8", "K9", "K10"])
    decls += [d for d in C.k5(th) if d.name in ("k5_i16_300", "k5_i8_138") or th]
    decls += [d for d in C.k4() if d.name in ("k4_dup", "k4_dup_h", "k4_esc_h")]

    def fill(m):
        for h in E.h_ub(m):
            m.add(h)
        wbp, wbs = E.wb_next_and_back(m)
        if wbs:
            m.sub_prelude["wb"] = wbp
            for h in wbs:
                if h.fn in ("h_step_next", "h_step_next_back", "h_init_range"):
                    h.ub_only = False
                    m.add(h)

    def per(d):
        if th:
            return ["M", "T", "R", "I", "A"]
        if d.family == "K3":
            i = sum(map(ord, d.name)) % 3
            return [["R", "T"], ["M", "A"], ["T", "I"]][i]
        if d.family == "K5":
            return ["M", "T"]
        if d.family == "K10":
            return ["T"]
        return ["M", "T", "A"] if d.repr in ("i8", "u64", "isize", "i128") else ["M", "T"]
    return _mods(decls, None, "C02", fill, per)


def plan_C11(tier, seed):
    decls = C.k6()
    if tier != "thorough":
        decls = [d for d in decls if d.tier == "q"]

    def fill(m):
        m.add(E.h_try_from(m))
        m.add(E.h_into(m))
        m.add(E.h_minmax_next(m))
        m.add(E.h_as_str(m))
        if m.has("iter"):
            m.add(E.h_content(m, "iter"))
    return _mods(decls, ["A", "M"] if tier == "thorough" else ["A"], "C11", fill)


PLANS = {"C01": plan_C01, "C02": plan_C02, "C03": plan_C03, "C04": plan_C04, "C05": plan_C05,
         "C06": plan_C06, "C07": plan_C07, "C08": plan_C08, "C11": plan_C11}


# ----------------------------------------------------------------------------------
# differential plans (C09, C18, part of C10)

def _pair(idx, da, ba, db, bb, prop, th):
    name = "p%02d_%s_%s_%s" % (idx, da.name, ba.name.lower(), bb.name.lower() if da is db else db.name)
    p = E.PairModule(name[:60], da, ba, db, bb, prop)
    E.pair_harnesses(p, th)
    return p if p.harnesses else None


def plan_C09_pairs(tier, seed):
    th = tier == "thorough"
    B = BUNDLES
    decls = C.k1()
    decls += [d for d in C.k2() if d.name in (("k2_i8", "k2_u64", "k2_i8_mid") if not th else
                                               ("k2_i8", "k2_u8", "k2_i16", "k2_u64", "k2_i64", "k2_isize", "k2_i8_mid", "k2_u8_two"))]
    decls += [d for d in C.k3() if d.name in (("k3_i8_lo", "k3_u8_hi", "k3_i64_lo") if not th else
                                               ("k3_i8_lo", "k3_u8_hi", "k3_i64_lo", "k3_i16_zero", "k3_u64_hi", "k3_i8_1lo", "k3_u16_mid", "k3_isize_hi"))]
    decls += [d for d in C.k4() if d.name in ("k4_dup", "k4_dup_h", "k4_swap_h") or (th and d.name in ("k4_esc", "k4_pre_h"))]
    decls += [d for d in C.k9() if d.name in ("k9_i128", "k9_u128_gap") or (th and d.name in ("k9_u128", "k9_i128_gap"))]
    decls += C.k8(seed, 4 if th else 2)
    full_pairs = [("M", "T"), ("M", "A"), ("T", "A"), ("R", "A"), ("I", "M"), ("R", "T")]
    steer = [("S_as", "T"), ("S_asfs", "M"), ("S_asn", "M"), ("S_itfs", "M"), ("S_it", "M"),
             ("S_itr", "T"), ("X1", "X2"), ("FSa1", "T"), ("FSa1t", "M"), ("S_it", "I"), ("ITaf", "ITn"),
             ("N", "M")]   # N: every item under a custom name (helpers referenced through the names table)
    out = []
    i = 0
    for d in decls:
        pairs = full_pairs + steer
        if not th:
            # rotate: every declaration gets the two big pairs and a third of the others
            h = sum(map(ord, d.name))
            pairs = [("M", "T"), ("T", "A")] + [p for j, p in enumerate(full_pairs[2:] + steer) if (j + h) % 3 == 0]
            if d.family == "K1" and ("N", "M") not in pairs:
                pairs.append(("N", "M"))
            if d.family == "K4":
                pairs = [("M", "T"), ("T", "A"), ("X1", "X2"), ("FSa1", "T"), ("S_asfs", "M")]
        for ba, bb in pairs:
            if not (B[ba].legal_for(d) and B[bb].legal_for(d)):
                continue
            p = _pair(i, d, B[ba], d, B[bb], "C09", th)
            if p:
                out.append(p)
                i += 1
    return out


def plan_C18_pairs(tier, seed):
    th = tier == "thorough"
    B = BUNDLES
    out = []
    i = 0
    for fid, members in C.k7(th):
        ref = members[0]
        for j, mbr in enumerate(members[1:]):
            for bn in (["A", "T"] if th else [["A", "T", "M"][j % 3]]):
                if not B[bn].legal_for(ref):
                    continue
                p = _pair(i, ref, B[bn], mbr, B[bn], "C18", th)
                if p:
                    out.append(p)
                    i += 1
    return out


def plan_C18_oracle(tier, seed):
    """every family member against the oracle of the MAP (same DISC/NAMES for all members)"""
    th = tier == "thorough"
    decls = []
    for fid, members in C.k7(th):
        decls += members

    def fill(m):
        m.add(E.h_try_from(m))
        m.add(E.h_minmax_next(m))
        m.add(E.h_as_str(m))
        if m.decl.n <= 40:
            m.add(E.h_from_str_pos(m))
        m.add(E.h_content(m, "iter"))
        m.add(E.h_content(m, "range"))
        m.add(E.h_content(m, "names"))
    return _mods(decls, ["A"] if not th else ["A", "M"], "C18", fill)


def plan_C10_split(tier, seed):
    """one attribute vs the same features split over several attributes"""
    th = tier == "thorough"
    decls = C.k1() + [d for d in C.k2() if d.name in (("k2_i8_mid",) if not th else ("k2_i8", "k2_u64", "k2_i8_mid"))]
    out = []
    i = 0
    for d in decls:
        for bn in (("A", "T") if not th else ("A", "T", "M")):
            b3 = BUNDLES[bn]
            if not b3.legal_for(d):
                continue
            b1 = C.Bundle(bn + "1", b3.feats, split=1)
            b5 = C.Bundle(bn + "5", b3.feats, split=5)
            p = _pair(i, d, b1, d, b5, "C10", th)
            if p:
                out.append(p)
                i += 1
    return out


# ----------------------------------------------------------------------------------
# C10 base cases: the documented catalogue (src/lib.rs), each one compiled

class BaseCase:
    role = "base"

    def __init__(self, cid, decl, bundle, touch="", doc=""):
        self.cid = cid
        self.decl = decl
        self.bundle = bundle
        self.touch = touch
        self.doc = doc
        self.name = "bc_" + cid
        self.harnesses = []
        self._m = E.Module(decl, bundle, "C10")
        self._m.name = self.name

    def header(self):
        return self._m.header()

    def text(self, drop_sub=False):
        t = self._m.header()
        if self.touch:
            t += "\npub fn touch() {\n%s\n}\n" % E.indent(self.touch, 4)
        return t

    def harness_ids(self):
        return {}


def base_cases():
    g = C.mk("bg", "i16", [-2, -1, 0, 1, 2], "BC", order="shuffled", seed=4, implicit="alt", renames={0: "zero"})
    h = C.mk("bh", "i16", [-7, -6, 0, 3, 4, 100], "BC", order="shuffled", seed=4, implicit="alt", renames={0: "zero"})
    sg = C.mk("bsg", "u8", [1, 2, 3], "BC", order="sorted", implicit="max", idents={1: "Aa", 2: "Bb", 3: "Cc"})
    sh = C.mk("bsh", "u8", [1, 5, 9], "BC", order="sorted", implicit="none", idents={1: "Aa", 5: "Bb", 9: "Cc"},
              renames={9: "Zz"})
    cases = []

    def add(cid, feats, touch="", shapes=("g", "h"), doc="", split=1):
        for sname, d in (("g", g), ("h", h)):
            if sname not in shapes:
                continue
            b = C.Bundle(cid, feats, split=split)
            cases.append(BaseCase("%s_%s" % (cid, sname), d, b, touch, doc))
    modes3 = ["auto", "match", "table"]
    for m in modes3:
        add("as_str_" + m, {"as_str": {"mode": m}}, "let _: &'static str = E::as_str(SORTED[0]);")
        add("from_str_" + m, {"from_str": {"mode": m}}, "let _: Option<E> = E::from_str(\"x\");")
        add("fromstr_" + m, {"FromStr": {"mode": m}}, "let _: Result<E, ()> = \"x\".parse::<E>();")
    for f, touch in [("into", "let _: R = E::into(SORTED[0]);"), ("Into", "let _: R = R::from(SORTED[0]);"),
                     ("IntoStr", "let _: &'static str = <&'static str>::from(SORTED[0]);"),
                     ("Debug", "let mut s = Sink::new(); let _ = write!(s, \"{:?}\", SORTED[0]);"),
                     ("Display", "let mut s = Sink::new(); let _ = write!(s, \"{}\", SORTED[0]);"),
                     ("MAX", "let _: E = E::MAX;"), ("MIN", "let _: E = E::MIN;"),
                     ("next", "let _: Option<E> = E::next(SORTED[0]);"),
                     ("next_back", "let _: Option<E> = E::next_back(SORTED[0]);"),
                     ("try_from", "let _: Option<E> = E::try_from(0);"),
                     ("TryFrom", "let _: Result<E, ()> = <E as TryFrom<R>>::try_from(0);"),
                     ("names", "let _: ENames = E::names();")]:
        add("solo_" + f, {f: None}, touch)
    for m in ["auto", "next_and_back", "table", "table_inline", "match", "range"]:
        add("iter_" + m, {"iter": {"mode": m}}, "let _: EIter = E::iter();",
            shapes=("g",) if m == "range" else ("g", "h"),
            doc="src/lib.rs iter: mode " + m)
    for m in ["auto", "next_and_back", "table", "range"]:
        add("range_" + m, {"iter": {"mode": m}, "range": None}, "let _: EIter = E::range(SORTED[0], SORTED[1]);",
            shapes=("g",) if m == "range" else ("g", "h"))
    # common parameters name / vis
    for vis in ["", "pub(crate)", "pub"]:
        tag = {"": "priv", "pub(crate)": "crate", "pub": "pub"}[vis]
        add("vis_" + tag, {"as_str": {"vis": vis, "name": "label"}, "MIN": {"vis": vis, "name": "FIRST"},
                           "iter": {"vis": vis, "name": "all"}, "names": {"vis": vis},
                           "next": {"name": "succ", "vis": vis}, "try_from": {"name": "from_repr"}},
            "let _ = E::label(E::FIRST); let _ = E::all(); let _ = E::succ(E::FIRST); let _ = E::from_repr(0); let _ = E::names();")
    add("struct_name", {"iter": {"struct_name": "Walk"}, "names": {"struct_name": "Labels"}},
        "let _: Walk = E::iter(); let _: Labels = E::names();", doc="src/lib.rs: struct_name parameter of iter and names")
    # everything, one attribute / several attributes
    add("all_one", BUNDLES["A"].feats, split=1)
    add("all_split", BUNDLES["A"].feats, split=4)
    add("all_match", BUNDLES["M"].feats, split=2)
    add("all_table", BUNDLES["T"].feats, split=1)
    add("all_range", BUNDLES["R"].feats, shapes=("g",))
    add("all_inline", BUNDLES["I"].feats)
    add("custom_names", BUNDLES["N"].feats, split=2)
    # sorted (compile-time feature) on sorted declarations
    for sname, d in (("g", sg), ("h", sh)):
        for cid, par in (("sorted_name", {"name": True}), ("sorted_value", {"value": True}),
                         ("sorted_both", {"name": True, "value": True})):
            cases.append(BaseCase("%s_%s" % (cid, sname), d, C.Bundle(cid, {"sorted": par, "as_str": None}), ""))
    return cases


class BigCase(BaseCase):
    """65534 variants (the documented maximum): compile observation only, lean module text"""

    def __init__(self):
        self.cid = "max_variants_65534"
        self.name = "bc_" + self.cid
        self.harnesses = []
        self.touch = ""
        self.doc = "src/lib.rs: at most u16::MAX-1 items"
        n = 65534
        self.decl = C.mk("k6_65534", "u16", range(0, n), "K6", order="sorted", implicit="max")
        self.bundle = C.Bundle("big", {"MIN": None, "MAX": None, "into": None, "try_from": None, "next": None})

    def header(self):
        d = self.decl
        return ("// generated: the documented maximum of 65534 variants\n"
                "#![allow(dead_code)]\nuse enum_tools::EnumTools;\n" + d.rust_enum(self.bundle.attr_lines()) + "\n"
                "pub fn touch() {\n    assert!(E::MAX as u16 == 65533 && E::MIN as u16 == 0);\n"
                "    assert!(E::try_from(65533).is_some() && E::try_from(65534).is_none());\n}\n")

    def text(self, drop_sub=False):
        return self.header()


def c11_base_cases():
    return [BigCase()]
