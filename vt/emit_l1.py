"""Engine B (real Features::resolve under Kani) and Engine C (run-decomposition loop
cut out of src/parser/mod.rs)."""
import os
import re

from . import kani as K
from . import emit_l2 as E
from . import driver as D

REPO = K.REPO


class RawModule:
    """a module that is not a (declaration, bundle) pair"""

    def __init__(self, name, text=""):
        self.name = name
        self._text = text
        self.harnesses = []
        self.decl = None
        self.bundle = None
        self.prefix = name

    def text(self, drop_sub=False):
        return self._text

    def harness_ids(self):
        return {self.prefix + "::" + h.fn: h for h in self.harnesses}


B_HARNESSES = {
    "h_resolve_legal": dict(kind="resolve_legal", covers=["a legal configuration resolves", "auto picked table_inline",
                                                         "auto picked table", "auto picked next_and_back", "auto picked range",
                                                         "as_str auto picked table", "as_str auto picked match"],
                            symbolic="the whole configuration: 17 feature flags x 3*3*3*5 modes x gapless/holes x num_values 1..=65534 x repr size {1,2,4,8,16}"),
    "h_needs": dict(kind="needs", covers=["range/table/holes reached", "as_str generated as a helper"],
                    symbolic="the whole configuration (as above)"),
    "h_resolve_illegal": dict(kind="resolve_illegal", covers=["range without iter", "range with table_inline", "iter range on holes"],
                              symbolic="the whole configuration restricted to the illegal ones"),
    "h_witness_reaches_end": dict(kind="witness", covers=["resolve returns for some configuration", "resolve returns with range enabled"],
                                  symbolic="the whole configuration"),
}


def engine_b(rep, fns, harness_timeout, max_replays=4):
    prop = rep.prop
    base = os.path.join(K.WORK, prop)
    crate_dir = os.path.join(base, "crate_b")
    os.makedirs(base, exist_ok=True)
    with open(os.path.join(E.ROOT, "rs", "engine_b.rs")) as f:
        lib = f.read().replace("@REPO@", REPO)
    deps = E.deps_l1(REPO)
    empty = RawModule("empty", "// (Engine B: the harnesses live in lib.rs)\n")
    E.write_crate(crate_dir, "vt_%s_b" % prop.lower(), [empty], repo=REPO, extra_lib=lib, deps=deps)
    rep.engines.append("B")
    rep.stubs.append("proc_macro_error::Diagnostic::abort -> kani::assume(false) (-Z stubbing): 'resolve returns' <=> 'no abort!'")
    rep.stubs.append("Derive built through MaybeUninit with only mode/num_values/repr_size_guessed initialised (Ident::new ICEs kani-compiler; resolve reads nothing else)")
    D.log("[%s] engine B: real Features::resolve, harnesses %s" % (prop, ", ".join(fns)))
    ok, errors, dt = K.native_check(crate_dir, log=os.path.join(base, "prepass_b.log"))
    if not ok or errors:
        msg = "; ".join(sorted({e["message"] for e in errors}))[:500]
        rep.infra_errors.append("Engine B harness does not compile against src/generator, src/feature (refactored?): " + msg)
        return
    hmod = RawModule("hb")
    hmod.prefix = "hb"
    for fn in fns:
        meta = B_HARNESSES[fn]
        hmod.harnesses.append(E.Harness(fn, "", 8, meta["kind"], meta["symbolic"], meta["covers"]))
    ids = {hid: (empty_with(hmod, empty), h) for hid, h in hmod.harness_ids().items()}
    jpath = os.path.join(base, "kani_b.json")
    rc, out, dt, data = K.cargo_kani(crate_dir, jpath, harness_timeout, jobs=len(fns), harnesses=list(ids),
                                     stubbing=True, log=os.path.join(base, "kani_b.log"))
    if data is None:
        rep.infra_errors.append("cargo kani (Engine B) produced no result file; see %s" % os.path.join(base, "kani_b.log"))
        return
    if "Stub:" in out or "stub" in out.lower():
        pass
    D._tools(rep, data)
    results = K.classify(data, out)
    D.collect(rep, ids, results, out, crate_dir, harness_timeout, max_replays, stubbing=True,
              extra_lib=lib, deps=deps)
    rep.bounds["engine_B"] = {"configurations": "2^17 feature subsets x 3*3*3*5 modes x {gapless, holes} x num_values 1..=65534 x repr size in {1,2,4,8,16} in ONE query per harness",
                              "unwind": 8}


def empty_with(hmod, empty):
    # replay needs a module file; the harness itself lives in lib.rs (extra_lib)
    m = RawModule("empty", "// (Engine B: the harnesses live in lib.rs)\n")
    return m


# ----------------------------------------------------------------------------------
# Engine C

C_TEMPLATE = """
pub mod hc {
    #[cfg(not(kani))]
    use crate::kani;
    pub const CAP: usize = 9;
    /// array-backed stand-in for alloc::vec::Vec with the same new/push/iter/len semantics
    /// (a real Vec makes this intractable: n=3 takes 9 minutes, n>=4 runs out of memory)
    pub struct Vec<T: Copy + Default> { pub buf: [T; CAP], pub n: usize }
    impl<T: Copy + Default> Vec<T> {
        pub fn new() -> Self { Vec { buf: [T::default(); CAP], n: 0 } }
        pub fn push(&mut self, x: T) { self.buf[self.n] = x; self.n += 1; }
        pub fn len(&self) -> usize { self.n }
        pub fn iter(&self) -> core::slice::Iter<'_, T> { self.buf[..self.n].iter() }
        pub fn first(&self) -> Option<&T> { self.buf[..self.n].first() }
        pub fn last(&self) -> Option<&T> { self.buf[..self.n].last() }
    }

    /// the block `let value_ranges = {{ ... }};` cut out of src/parser/mod.rs, unmodified
    pub fn run_table(values: &Vec<(i64, ())>, min_key: i64) -> Vec<(i64, i64)> {
        @BLOCK@
        value_ranges
    }

    #[cfg_attr(kani, kani::proof)]
    #[cfg_attr(kani, kani::unwind(@UNWIND@))]
    pub fn h_runs() {
        const M: usize = @M@;
        let m: usize = kani::any();
        kani::assume(m >= 1 && m <= M);
        let mut values: Vec<(i64, ())> = Vec::new();
        let mut i = 0;
        let mut prev: i64 = 0;
        while i < m {
            let x: i64 = kani::any();
            if i > 0 {
                kani::assume(x > prev);   // strictly ascending, as after the sort in parse_values
            }
            values.push((x, ()));
            prev = x;
            i += 1;
        }
        let min_key = values.buf[0].0;
        let max_key = values.buf[m - 1].0;
        let r = run_table(&values, min_key);
        assert!(r.n >= 1 && r.n <= m, "number of runs");
        assert!(r.buf[0].0 == min_key, "first run starts at the minimum");
        assert!(r.buf[r.n - 1].1 == max_key, "last run ends at the maximum");
        let mut total: i128 = 0;
        let mut j = 0;
        while j < r.n {
            let (b, e) = r.buf[j];
            assert!(b <= e, "run is well-formed");
            total += (e as i128) - (b as i128) + 1;
            if j + 1 < r.n {
                assert!((r.buf[j + 1].0 as i128) - (e as i128) >= 2, "runs are separated by a hole");
            }
            j += 1;
        }
        assert!(total == m as i128, "run sizes add up to the number of variants");
        // every value lies in a run
        let k: usize = kani::any();
        kani::assume(k < m);
        let x = values.buf[k].0;
        let mut hit = false;
        let mut j = 0;
        while j < r.n {
            if r.buf[j].0 <= x && x <= r.buf[j].1 { hit = true; }
            j += 1;
        }
        assert!(hit, "every discriminant lies in a run");
        kani::cover!(r.n == 1 && m > 1, "gapless");
        kani::cover!(r.n == m && m > 1, "all singletons");
        kani::cover!(min_key == i64::MIN, "starts at i64::MIN");
        kani::cover!(max_key == i64::MAX, "ends at i64::MAX");
    }
}
"""


def extract_run_block():
    """cut `let value_ranges = { ... };` out of the current src/parser/mod.rs"""
    try:
        src = open(os.path.join(REPO, "src/parser/mod.rs")).read()
    except OSError:
        return None
    i = src.find("let value_ranges = {")
    if i < 0:
        return None
    j = src.find("{", i)
    depth = 0
    k = j
    while k < len(src):
        if src[k] == "{":
            depth += 1
        elif src[k] == "}":
            depth -= 1
            if depth == 0:
                break
        k += 1
    if depth != 0:
        return None
    end = src.find(";", k)
    return src[i:end + 1]


def engine_c(rep, M, harness_timeout):
    """lemma: the run table computed by the real loop is a partition of the sorted values"""
    prop = rep.prop
    block = extract_run_block()
    if block is None:
        rep.skipped.append({"module": "engine_c", "what": "run-decomposition block not found in src/parser/mod.rs (refactored): lemma skipped"})
        return
    base = os.path.join(K.WORK, prop)
    crate_dir = os.path.join(base, "crate_c")
    lib = C_TEMPLATE.replace("@BLOCK@", block.replace("\n", "\n        ")).replace("@M@", str(M)).replace("@UNWIND@", str(M + 2))
    empty = RawModule("empty", "// (Engine C: the harness lives in lib.rs)\n")
    E.write_crate(crate_dir, "vt_%s_c" % prop.lower(), [empty], repo=REPO, extra_lib=lib, deps="")
    ok, errors, dt = K.native_check(crate_dir, log=os.path.join(base, "prepass_c.log"))
    if not ok or errors:
        rep.skipped.append({"module": "engine_c", "what": "extracted block does not compile against the Vec stand-in (refactored): lemma skipped: " +
                            "; ".join(sorted({e["message"] for e in errors}))[:300]})
        return
    rep.engines.append("C")
    rep.stubs.append("Engine C: alloc::vec::Vec shadowed by a 9-slot array-backed stand-in inside the lemma module")
    hmod = RawModule("hc")
    hmod.harnesses.append(E.Harness("h_runs", "", M + 2, "runs_lemma",
                                    "M <= %d strictly ascending i64 discriminants (the values themselves are symbolic)" % M,
                                    ["gapless", "all singletons", "starts at i64::MIN", "ends at i64::MAX"]))
    ids = {hid: (empty, h) for hid, h in hmod.harness_ids().items()}
    jpath = os.path.join(base, "kani_c.json")
    rc, out, dt, data = K.cargo_kani(crate_dir, jpath, harness_timeout, jobs=1, harnesses=list(ids),
                                     log=os.path.join(base, "kani_c.log"))
    if data is None:
        rep.infra_errors.append("cargo kani (Engine C) produced no result file")
        return
    results = K.classify(data, out)
    D.collect(rep, ids, results, out, crate_dir, harness_timeout, 2, extra_lib=lib, deps="")
    rep.bounds["engine_C"] = {"M": M, "source": "src/parser/mod.rs `let value_ranges = {...};` (text-extracted on every run)"}
