"""Engine B (real Features::resolve under Kani) and Engine C (run-decomposition loop
cut out of src/parser/mod.rs)."""
import os
import re

from . import kani as K
from . import emit_l2 as E
from . import driver as D

REPO = K.REPO


class RawModule:
    """a module that is not a (declaration, bundle) pair"""

    def __init__(self, name, text=""):
        self.name = name
        self._text = text
        self.harnesses = []
        self.decl = None
        self.bundle = None
        self.prefix = name

    def text(self, drop_sub=False):
        return self._text

    def harness_ids(self):
        return {self.prefix + "::" + h.fn: h for h in self.harnesses}


B_HARNESSES = {
    "h_resolve_legal": dict(kind="resolve_legal", covers=["a legal configuration resolves", "auto picked table_inline",
                                                         "auto picked table", "auto picked next_and_back", "auto picked range",
                                                         "as_str auto picked table", "as_str auto picked match"],
                            symbolic="the whole configuration: 17 feature flags x 3*3*3*5 modes x gapless/holes x num_values 1..=65534 x repr size {1,2,4,8,16}"),
    "h_needs": dict(kind="needs", covers=["range/table/holes reached", "as_str generated as a helper"],
                    symbolic="the whole configuration (as above)"),
    "h_resolve_illegal": dict(kind="resolve_illegal", covers=["range without iter", "range with table_inline", "iter range on holes"],
                              symbolic="the whole configuration restricted to the illegal ones"),
    "h_witness_reaches_end": dict(kind="witness", covers=["resolve returns for some configuration", "resolve returns with range enabled"],
                                  symbolic="the whole configuration"),
}


def engine_b(rep, fns, harness_timeout, max_replays=4):
    prop = rep.prop
    base = os.path.join(K.WORK, prop)
    crate_dir = os.path.join(base, "crate_b")
    os.makedirs(base, exist_ok=True)
    with open(os.path.join(E.ROOT, "rs", "engine_b.rs")) as f:
        lib = f.read().replace("@REPO@", REPO)
    deps = E.deps_l1(REPO)
    empty = RawModule("empty", "// (Engine B: the harnesses live in lib.rs)\n")
    E.write_crate(crate_dir, "vt_%s_b" % prop.lower(), [empty], repo=REPO, extra_lib=lib, deps=deps)
    rep.engines.append("B")
    rep.stubs.append("proc_macro_error::Diagnostic::abort -> kani::assume(false) (-Z stubbing): 'resolve returns' <=> 'no abort!'")
    rep.stubs.append("Derive built through MaybeUninit with only mode/num_values/repr_size_guessed initialised (Ident::new ICEs kani-compiler; resolve reads nothing else)")
    D.log("[%s] engine B: real Features::resolve, harnesses %s" % (prop, ", ".join(fns)))
    ok, errors, dt = K.native_check(crate_dir, log=os.path.join(base, "prepass_b.log"))
    if not ok or errors:
        msg = "; ".join(sorted({e["message"] for e in errors}))[:500]
        rep.infra_errors.append("Engine B harness does not compile against src/generator, src/feature (refactored?): " + msg)
        return
    hmod = RawModule("hb")
    hmod.prefix = "hb"
    for fn in fns:
        meta = B_HARNESSES[fn]
        hmod.harnesses.append(E.Harness(fn, "", 8, meta["kind"], meta["symbolic"], meta["covers"]))
    ids = {hid: (empty_with(hmod, empty), h) for hid, h in hmod.harness_ids().items()}
    jpath = os.path.join(base, "kani_b.json")
    rc, out, dt, data = K.cargo_kani(crate_dir, jpath, harness_timeout, jobs=len(fns), harnesses=list(ids),
                                     stubbing=True, log=os.path.join(base, "kani_b.log"))
    if data is None:
        rep.infra_errors.append("cargo kani (Engine B) produced no result file; see %s" % os.path.join(base, "kani_b.log"))
        return
    if "Stub:" in out or "stub" in out.lower():
        pass
    D._tools(rep, data)
    results = K.classify(data, out)
    D.collect(rep, ids, results, out, crate_dir, harness_timeout, max_replays, stubbing=True,
              extra_lib=lib, deps=deps)
    rep.bounds["engine_B"] = {"configurations": "2^17 feature subsets x 3*3*3*5 modes x {gapless, holes} x num_values 1..=65534 x repr size in {1,2,4,8,16} in ONE query per harness",
                              "unwind": 8}


def empty_with(hmod, empty):
    # replay needs a module file; the harness itself lives in lib.rs (extra_lib)
    m = RawModule("empty", "// (Engine B: the harnesses live in lib.rs)\n")
    return m


# ----------------------------------------------------------------------------------
# Engine C

C_TEMPLATE = """
pub mod hc {
    #[cfg(not(kani))]
    use crate::kani;
    pub const CAP: usize = 9;
    /// array-backed stand-in for alloc::vec::Vec with the same new/push/iter/len semantics
    /// (a real Vec makes this intractable: n=3 takes 9 minutes, n>=4 runs out of memory)
    pub struct Vec<T: Copy + Default> { pub buf: [T; CAP], pub n: usize }
    impl<T: Copy + Default> Vec<T> {
        pub fn new() -> Self { Vec { buf: [T::default(); CAP], n: 0 } }
        pub fn push(&mut self, x: T) { self.buf[self.n] = x; self.n += 1; }
    }
    // every slice method (iter, len, windows, first, last, indexing ...) comes from the slice
    impl<T: Copy + Default> core::ops::Deref for Vec<T> {
        type Target = [T];
        fn deref(&self) -> &[T] { &self.buf[..self.n] }
    }
    impl<T: Copy + Default> core::ops::DerefMut for Vec<T> {
        fn deref_mut(&mut self) -> &mut [T] { &mut self.buf[..self.n] }
    }

    /// stand-in for crate::generator::Mode
    pub enum Mode {
        Gapless,
        WithHoles { value_ranges: Vec<(i64, i64)> },
    }

    /// everything from `let value_ranges = {` to the end of `let mode = ...;` in
    /// src/parser/mod.rs, unmodified: the run table AND the gapless / with-holes decision
    #[allow(unused_variables)]
    pub fn classify(values: &Vec<(i64, ())>, min_key: i64, max_key: i64, num_values: usize) -> Mode {
        @MODEBLOCK@
        mode
    }

    /// the block `let value_ranges = {{ ... }};` cut out of src/parser/mod.rs, unmodified
    #[allow(unused_variables)]
    pub fn run_table(values: &Vec<(i64, ())>, min_key: i64, max_key: i64, num_values: usize) -> Vec<(i64, i64)> {
        @BLOCK@
        value_ranges
    }

    #[cfg_attr(kani, kani::proof)]
    #[cfg_attr(kani, kani::unwind(@UNWIND@))]
    pub fn h_runs() {
        const M: usize = @M@;
        let m: usize = kani::any();
        kani::assume(m >= 1 && m <= M);
        let mut values: Vec<(i64, ())> = Vec::new();
        let mut i = 0;
        let mut prev: i64 = 0;
        while i < m {
            let x: i64 = kani::any();
            if i > 0 {
                kani::assume(x > prev);   // strictly ascending, as after the sort in parse_values
            }
            values.push((x, ()));
            prev = x;
            i += 1;
        }
        let min_key = values.buf[0].0;
        let max_key = values.buf[m - 1].0;
        let consecutive = (max_key as i128) - (min_key as i128) + 1 == m as i128;
        let r = match classify(&values, min_key, max_key, m) {
            Mode::Gapless => {
                assert!(consecutive, "classified as gapless although the discriminants are not consecutive");
                run_table(&values, min_key, max_key, m)
            }
            Mode::WithHoles { value_ranges } => {
                assert!(!consecutive, "classified as with-holes although the discriminants are consecutive");
                value_ranges
            }
        };
        assert!(r.n >= 1 && r.n <= m, "number of runs");
        assert!(r.buf[0].0 == min_key, "first run starts at the minimum");
        assert!(r.buf[r.n - 1].1 == max_key, "last run ends at the maximum");
        let mut total: i128 = 0;
        let mut j = 0;
        while j < r.n {
            let (b, e) = r.buf[j];
            assert!(b <= e, "run is well-formed");
            total += (e as i128) - (b as i128) + 1;
            if j + 1 < r.n {
                assert!((r.buf[j + 1].0 as i128) - (e as i128) >= 2, "runs are separated by a hole");
            }
            j += 1;
        }
        assert!(total == m as i128, "run sizes add up to the number of variants");
        // every value lies in a run
        let k: usize = kani::any();
        kani::assume(k < m);
        let x = values.buf[k].0;
        let mut hit = false;
        let mut j = 0;
        while j < r.n {
            if r.buf[j].0 <= x && x <= r.buf[j].1 { hit = true; }
            j += 1;
        }
        assert!(hit, "every discriminant lies in a run");
        kani::cover!(r.n == 1 && m > 1, "gapless");
        kani::cover!(r.n == m && m > 1, "all singletons");
        kani::cover!(min_key == i64::MIN, "starts at i64::MIN");
        kani::cover!(max_key == i64::MAX, "ends at i64::MAX");
    }
}
"""


def extract_run_block():
    """cut `let value_ranges = { ... };` out of the current src/parser/mod.rs"""
    try:
        src = open(os.path.join(REPO, "src/parser/mod.rs")).read()
    except OSError:
        return None
    i = src.find("let value_ranges = {")
    if i < 0:
        return None
    j = src.find("{", i)
    depth = 0
    k = j
    while k < len(src):
        if src[k] == "{":
            depth += 1
        elif src[k] == "}":
            depth -= 1
            if depth == 0:
                break
        k += 1
    if depth != 0:
        return None
    end = src.find(";", k)
    return src[i:end + 1]


def extract_mode_block():
    """`let value_ranges = { ... };` together with everything up to the end of `let mode = ...;`"""
    try:
        src = open(os.path.join(REPO, "src/parser/mod.rs")).read()
    except OSError:
        return None
    i = src.find("let value_ranges = {")
    j = src.find("let mode", i)
    if i < 0 or j < 0:
        return None
    depth = 0
    k = j
    while k < len(src):
        if src[k] == "{":
            depth += 1
        elif src[k] == "}":
            depth -= 1
        elif src[k] == ";" and depth == 0:
            break
        k += 1
    if k >= len(src):
        return None
    return src[i:k + 1]


def engine_c(rep, M, harness_timeout):
    """lemma: the run table computed by the real loop is a partition of the sorted values"""
    prop = rep.prop
    block = extract_run_block()
    if block is None:
        rep.skipped.append({"module": "engine_c", "what": "run-decomposition block not found in src/parser/mod.rs (refactored): lemma skipped"})
        return
    base = os.path.join(K.WORK, prop)
    crate_dir = os.path.join(base, "crate_c")
    modeblock = extract_mode_block()
    if modeblock is None:
        # decision statement not found: keep the run-table lemma, classify == "one run"
        modeblock = block + "\n        let mode = if value_ranges.len() == 1 { Mode::Gapless } else { Mode::WithHoles { value_ranges } };"
        rep.skipped.append({"module": "engine_c", "what": "`let mode = ...;` not found after the run-splitting block: gapless/with-holes decision not covered"})
    lib = (C_TEMPLATE.replace("@BLOCK@", block.replace("\n", "\n        ")).replace("@MODEBLOCK@", modeblock.replace("\n", "\n        "))
           .replace("@M@", str(M)).replace("@UNWIND@", str(M + 2)))
    empty = RawModule("empty", "// (Engine C: the harness lives in lib.rs)\n")
    E.write_crate(crate_dir, "vt_%s_c" % prop.lower(), [empty], repo=REPO, extra_lib=lib, deps="")
    ok, errors, dt = K.native_check(crate_dir, log=os.path.join(base, "prepass_c.log"))
    if not ok or errors:
        rep.skipped.append({"module": "engine_c", "what": "extracted block does not compile against the Vec stand-in (refactored): lemma skipped: " +
                            "; ".join(sorted({e["message"] for e in errors}))[:300]})
        return
    rep.engines.append("C")
    rep.stubs.append("Engine C: alloc::vec::Vec shadowed by a 9-slot array-backed stand-in inside the lemma module")
    hmod = RawModule("hc")
    hmod.harnesses.append(E.Harness("h_runs", "", M + 2, "runs_lemma",
                                    "M <= %d strictly ascending i64 discriminants (the values themselves are symbolic)" % M,
                                    ["gapless", "all singletons", "starts at i64::MIN", "ends at i64::MAX"]))
    ids = {hid: (empty, h) for hid, h in hmod.harness_ids().items()}
    jpath = os.path.join(base, "kani_c.json")
    rc, out, dt, data = K.cargo_kani(crate_dir, jpath, harness_timeout, jobs=1, harnesses=list(ids),
                                     log=os.path.join(base, "kani_c.log"))
    if data is None:
        rep.infra_errors.append("cargo kani (Engine C) produced no result file")
        return
    results = K.classify(data, out)
    rep.bounds["engine_C"] = {"M": M, "source": "src/parser/mod.rs `let value_ranges = {...};` (text-extracted on every run)"}
    fails = {hid: r for hid, r in results.items() if r.status == "fail"}
    oks = {hid: r for hid, r in results.items() if r.status != "fail"}
    D.collect(rep, {h: v for h, v in ids.items() if h not in fails}, oks, out, crate_dir, harness_timeout, 0, extra_lib=lib, deps="")
    for hid, r in fails.items():
        rep.discharged += 1
        confirm_values(rep, crate_dir, hid, r, harness_timeout)


def confirm_values(rep, crate_dir, hid, r, harness_timeout):
    """Engine C counterexample = a set of discriminants: derive a real enum with exactly these
    values and let try_from / next / MIN / MAX decide natively"""
    from . import corpus as C
    from . import replay as RP
    prop = rep.prop
    desc = "; ".join(sorted({c.get("description", "") for c in r.failures}))[:300]
    entry = {"harness": hid, "kind": "runs_lemma", "status": "fail", "failed_checks": desc}
    rep.harness_results[hid] = entry
    tests, pout = RP.concrete_values(crate_dir, hid, harness_timeout, os.path.join(K.WORK, prop, "playback_runs.log"))
    try:
        vals = tests[0]
        m = int.from_bytes(bytes(vals[0]), "little")
        values = [int.from_bytes(bytes(v), "little", signed=True) for v in vals[1:1 + m]]
        assert len(values) == m and len(set(values)) == m
    except Exception as ex:
        entry["status"] = "unreproduced"
        entry["reason"] = "cannot decode the discriminants: %s" % ex
        rep.unreproduced.append(entry)
        return
    entry["discriminants"] = values
    d = C.mk("runs_cex", "i64", values, "C", order="reversed", implicit="none")
    mod = E.Module(d, C.BUNDLES["TF"], prop)
    body = []
    vs = sorted(values)
    probes = set()
    for v in vs:
        for p in (v - 1, v + 1):
            if C.I64_MIN <= p <= C.I64_MAX and p not in values:
                probes.add(p)
    for i, v in enumerate(vs):
        body.append('match E::try_from(%d) { Some(w) => assert!(w as R == %d), None => assert!(false, "try_from(declared) is None") }' % (v, v))
    for p in sorted(probes):
        body.append('assert!(E::try_from(%d).is_none(), "try_from accepts the undeclared value %d");' % (p, p))
    mod.add(E.Harness("h_confirm", "\n".join(body), 4, "runs_confirm", "-", []))
    rdir = os.path.join(RP.REPLAYS, prop, "runs_cex")
    RP.write_replay_crate(rdir, mod.name, mod.text(), mod.name + "::h_confirm", [], repo=REPO)
    verdicts = {}
    for prof in ("dev", "release"):
        rc, out = RP.run_native(rdir, prof)
        verdicts[prof] = RP.verdict(rc, out)
    what = "run decomposition wrong for the derivable discriminant set %s (#[repr(i64)]): %s" % (vs, desc)
    if "reproduced" in verdicts.values():
        entry["replay"] = rdir
        pm = D._panic_message(rdir)
        rep.violations.append(D.Violation(prop, {"kind": "runs", "n": len(values), "check": desc},
                                          what + (" -- native: " + pm if pm else ""), rdir, {"harness": hid}))
    else:
        # a release build may silently produce an invalid value: let miri decide
        rc, out = RP.run_miri(rdir, release=False)
        if "Undefined Behavior" in out:
            entry["replay"] = rdir
            rep.violations.append(D.Violation(prop, {"kind": "runs", "n": len(values), "check": desc},
                                              what + " -- miri: undefined behaviour in try_from", rdir, {"harness": hid}))
            return
        entry["status"] = "unreproduced"
        entry["reason"] = "the real derive handles these discriminants correctly (%s): the extracted lemma misrepresents the code" % verdicts
        rep.unreproduced.append(entry)


# ----------------------------------------------------------------------------------
# Engine C2: the index arithmetic of the table modes with SYMBOLIC run layouts
#
# The with-holes table functions compute `rank(v) = v - (run_start - names_before_run)` in
# wrapping arithmetic of the repr type and cast the result through the "unsigned companion"
# type.  The fragments that make up this computation are cut out of the current sources on
# every run:
#   * the per-run table entry           src/feature/table_range.rs   quote! {(#b1 ..= #e1, <ENTRY>)}
#   * the running offset                src/feature/table_range.rs   ofs += <INC>;
#   * every index expression            src/feature/as_str_fn.rs, range_fn.rs   `... .wrapping_sub(..) as #repr_unsigned as usize`
#   * the repr -> companion table       src/parser/mod.rs            "u16" | "i16" => (2, "u16")
# and assembled into straight-line Rust in which the run layout (starts, ends, number of
# runs) is symbolic.  A counterexample is a LAYOUT, i.e. a declaration; it is confirmed by
# really deriving an enum with that layout and calling the derived function natively.

C2_TEMPLATE = """
pub mod c2_@R@ {
    #[cfg(not(kani))]
    use crate::kani;
    pub type R = @R@;
    pub type U = @U@;
    pub const M: usize = @M@;
    pub const LO: i64 = @LO@;
    pub const HI: i64 = @HI@;

    /// table entry for a run starting at b (literal `{b0}{repr}`) with `ofs` names before it
    /// (literal `{ofs}{repr}`, wrapped to the repr like an out-of-range literal)
    #[inline(always)]
    fn entry(b0: i64, ofs: i64) -> R {
        let b1: R = b0 as R;
        let o1: R = ofs as R;
        @ENTRY@
    }
@IDXFNS@
    #[cfg_attr(kani, kani::proof)]
    #[cfg_attr(kani, kani::unwind(@UNWIND@))]
    pub fn h_layout() {
        layout::<@MAXN@>()
    }
    /// same query restricted to at most 300 variants: counterexamples stay small enough to be
    /// confirmed quickly by really deriving them
    #[cfg_attr(kani, kani::proof)]
    #[cfg_attr(kani, kani::unwind(@UNWIND@))]
    pub fn h_layout_small() {
        layout::<300>()
    }
    fn layout<const MAXN: i64>() {
        let m: usize = kani::any();
        kani::assume(m >= 1 && m <= M);
        let mut b = [0i64; M];
        let mut e = [0i64; M];
        let mut before = [0i64; M];
        let mut ofs: i64 = 0;
        let mut j = 0;
        while j < m {
            let b0: i64 = kani::any();
            let e0: i64 = kani::any();
            kani::assume(LO <= b0 && b0 <= e0 && e0 <= HI);
            // at most MAXN variants in total, so no run is longer than that
            kani::assume((e0 as i128) - (b0 as i128) < MAXN as i128);
            if j > 0 {
                kani::assume((b0 as i128) > (e[j - 1] as i128) + 1); // a hole between two runs
            }
            b[j] = b0;
            e[j] = e0;
            before[j] = ofs;
            {
                let (b0, e0) = (&b0, &e0);
                @INC@;
            }
            kani::assume(ofs <= MAXN); // number of variants (documented limit 65534)
            j += 1;
        }
        let j: usize = kani::any();
        kani::assume(j < m);
        let x: i64 = kani::any();
        kani::assume(b[j] <= x && x <= e[j]);
        let rank = (before[j] + (x - b[j])) as usize;
        let min = b[0] as R;
        let t1 = entry(b[j], before[j]);
        kani::cover!(m == M, "maximal number of runs");
        kani::cover!(rank > (R::MAX as u128 / 2) as usize || rank > 200, "large index");
        kani::cover!(m > 1 && b[1] < 0, "negative later run");
@ASSERTS@
    }
}
"""


def _companions():
    src = open(os.path.join(REPO, "src/parser/mod.rs")).read()
    out = {}
    for m in re.finditer(r'((?:"\w+"\s*\|\s*)*"\w+")\s*=>\s*\(\s*\d+\s*,\s*"(\w+)"\s*\)', src):
        for r in re.findall(r'"(\w+)"', m.group(1)):
            out[r] = m.group(2)
    return out


def _rustify(expr, holes):
    """turn a quote! fragment into plain Rust over (x: R, min: R, t1: R)"""
    s = expr
    s = s.replace("#repr_unsigned", "U").replace("#repr", "R")
    s = re.sub(r"Self::#ident_min as R", "min", s)
    s = re.sub(r"\b(self|start|end) as R", "x", s)
    s = re.sub(r"\b(start_repr|end_repr)\b", "x", s)
    s = re.sub(r"\b[tr]\.1\b", "t1", s)
    return s


def extract_c2():
    """-> dict(entry, inc, idx=[(file, line, expr, holes)]) or None"""
    try:
        tr = open(os.path.join(REPO, "src/feature/table_range.rs")).read()
    except OSError:
        return None
    m = re.search(r"quote!\s*\{\s*\(#b1\s*\.\.=\s*#e1\s*,\s*(.+?)\)\s*\}\s*\n\s*\}\s*else", tr, re.S)
    # the statement that advances the running offset, verbatim (whatever its operator)
    inc = None
    for mi in re.finditer(r"(?<!let mut )\b(ofs\s*[-+*|^]?=\s*[^;=][^;]*);", tr):
        inc = mi
    have_table = bool(m and inc and m.group(1).strip() != "()")
    entry = m.group(1).strip().replace("#b1", "b1").replace("#o1", "o1").replace("#e1", "(e0 as R)") if have_table else None
    idx = []
    for fn in ("src/feature/as_str_fn.rs", "src/feature/range_fn.rs"):
        try:
            lines = open(os.path.join(REPO, fn)).read().split("\n")
        except OSError:
            continue
        for ln, l in enumerate(lines, 1):
            if "wrapping_sub" not in l or "usize" not in l:
                continue
            # the expression: from the operand before .wrapping_sub to `usize`
            mm = re.search(r"((?:\([^()]*\)|\w+)\.wrapping_sub\((?:[^()]|\([^()]*\))*\)(?:\s+as\s+[#\w]+)+)", l)
            if not mm:
                continue
            expr = mm.group(1)
            holes = bool(re.search(r"\b[tr]\.[01]\b", expr))
            if holes and not have_table:
                continue   # the range-table representation was refactored: with-holes fragments skipped
            idx.append((fn, ln, expr, holes))
    # table-mode parsing of a gapless enum: position in the name table -> discriminant
    disc = []
    for fn in ("src/feature/from_str_fn.rs", "src/feature/from_str_trait.rs"):
        try:
            lines = open(os.path.join(REPO, fn)).read().split("\n")
        except OSError:
            continue
        for ln, l in enumerate(lines, 1):
            if "transmute(" not in l or "#ident_min" not in l:
                continue
            mm = re.search(r"transmute\(((?:[^()]|\((?:[^()]|\([^()]*\))*\))*)\)", l)
            if mm:
                disc.append((fn, ln, mm.group(1)))
    if not idx and not disc:
        return None
    return {"entry": entry or "b1", "inc": inc.group(1).strip() if have_table else "ofs += e0 - b0 + 1", "idx": idx, "disc": disc,
            "have_table": have_table}


def engine_c2(rep, files, M, harness_timeout, reprs=None):
    """files: which index expressions to include ('as_str_fn', 'range_fn')"""
    from . import corpus as C
    from . import replay as RP
    prop = rep.prop
    ex = extract_c2()
    comp = _companions()
    if ex is None or not comp:
        rep.skipped.append({"module": "engine_c2", "what": "index-arithmetic fragments not found in the sources (refactored): layout lemma skipped"})
        return
    idx = [t for t in ex["idx"] if any(f in t[0] for f in files)]
    disc = [t for t in ex.get("disc", []) if any(f in t[0] for f in files)]
    if not idx and not disc:
        rep.skipped.append({"module": "engine_c2", "what": "no index expression found for %s: layout lemma skipped" % files})
        return
    reprs = reprs or list(C.REPRS)
    mods = []
    fns = []
    asserts = []
    for k, (fn, ln, expr, holes) in enumerate(idx):
        body = _rustify(expr, holes)
        fns.append("    /// %s:%d   %s\n    #[inline(always)]\n    fn idx_%d(x: R, min: R, t1: R) -> usize {\n        %s\n    }" % (fn, ln, expr.replace("\n", " "), k, body))
        if holes:
            asserts.append('        if m >= 2 {\n            assert!(idx_%d(x as R, min, t1) == rank, "%s:%d: table index of a variant in a with-holes enum is not its rank");\n        }' % (k, fn, ln))
        else:
            asserts.append('        if m == 1 {\n            assert!(idx_%d(x as R, min, t1) == rank, "%s:%d: table index of a variant in a gapless enum is not its rank");\n        }' % (k, fn, ln))
    for k, (fn, ln, expr) in enumerate(disc):
        body = expr.replace("#ident_enum::#ident_min as #repr", "min").replace("Self::#ident_min as #repr", "min")
        body = body.replace("#repr_unsigned", "U").replace("#repr", "R")
        fns.append("    /// %s:%d   transmute(%s)\n    #[inline(always)]\n    fn disc_%d(i: usize, min: R) -> Option<R> {\n        Some(%s)\n    }" % (fn, ln, expr, k, body))
        asserts.append('        if m == 1 {\n            assert!(disc_%d(rank, min) == Some(x as R), "%s:%d: discriminant computed from the name-table position is not the variant\'s");\n        }' % (k, fn, ln))
    lib = ""
    for r in reprs:
        if r not in comp:
            continue
        bits, signed = C.REPRS[r]
        maxn = min(65534, 2 ** bits)
        lib += (C2_TEMPLATE.replace("@R@", r).replace("@U@", comp[r]).replace("@M@", str(M))
                .replace("@LO@", str(C.rmin(r))).replace("@HI@", str(C.rmax(r)))
                .replace("@ENTRY@", ex["entry"]).replace("@INC@", ex["inc"])
                .replace("@IDXFNS@", "\n".join(fns)).replace("@ASSERTS@", "\n".join(asserts))
                .replace("@UNWIND@", str(M + 2)).replace("@MAXN@", str(maxn)))
    base = os.path.join(K.WORK, prop)
    crate_dir = os.path.join(base, "crate_c2")
    empty = RawModule("empty", "// (Engine C2: the harnesses live in lib.rs)\n")
    E.write_crate(crate_dir, "vt_%s_c2" % prop.lower(), [empty], repo=REPO, extra_lib=lib, deps="")
    ok, errors, dt = K.native_check(crate_dir, log=os.path.join(base, "prepass_c2.log"))
    if not ok or errors:
        rep.skipped.append({"module": "engine_c2", "what": "assembled index arithmetic does not compile (templates refactored): layout lemma skipped: " +
                            "; ".join(sorted({e["message"] for e in errors}))[:300]})
        return
    rep.engines.append("C2")
    ids = {}
    for r in reprs:
        if r not in comp:
            continue
        hm = RawModule("c2_" + r)
        sym = ("the run layout itself: up to %d runs with symbolic start/end anywhere in %s (within the i64 domain), symbolic variant; index expressions: %s"
               % (M, r, ", ".join("%s:%d" % (os.path.basename(t[0]), t[1]) for t in idx + disc)))
        cov = ["maximal number of runs", "large index"] + (["negative later run"] if C.REPRS[r][1] else [])
        hm.harnesses.append(E.Harness("h_layout", "", M + 2, "layout_lemma", sym + "; <= min(65534, 2^bits) variants", cov))
        if C.REPRS[r][0] > 8:
            hm.harnesses.append(E.Harness("h_layout_small", "", M + 2, "layout_lemma_small", sym + "; <= 300 variants", cov))
        for hid, hh in hm.harness_ids().items():
            ids[hid] = (hm, hh)
    jpath = os.path.join(base, "kani_c2.json")
    rc, out, dt, data = K.cargo_kani(crate_dir, jpath, harness_timeout, jobs=min(16, len(ids)), harnesses=list(ids),
                                     log=os.path.join(base, "kani_c2.log"))
    if data is None:
        rep.infra_errors.append("cargo kani (Engine C2) produced no result file; see " + os.path.join(base, "kani_c2.log"))
        return
    results = K.classify(data, out)
    if not ex.get("have_table"):
        rep.skipped.append({"module": "engine_c2", "what": "range-table entry/offset fragments not found (representation refactored): with-holes index expressions skipped, gapless ones kept"})
    rep.bounds["engine_C2"] = {"runs": M, "reprs": [r for r in reprs if r in comp], "variants": "<= min(65534, 2^bits)",
                               "fragments": {"entry": ex["entry"], "inc": ex["inc"], "index_expressions": [t[2] for t in idx + disc]}}
    rep.stubs.append("Engine C2: table entry / offset / index expressions are text fragments of the quote! templates assembled into straight-line Rust; a counterexample layout is confirmed by really deriving an enum with that layout")
    # classification: passes go through collect(); failures are confirmed through the real derive
    fails = {hid: r for hid, r in results.items() if r.status == "fail"}
    oks = {hid: r for hid, r in results.items() if r.status != "fail"}
    D.collect(rep, {h: v for h, v in ids.items() if h in oks or h not in results}, oks, out, crate_dir, harness_timeout, 0,
              extra_lib=lib, deps="")
    done = 0
    small_failed = {hid.split("::")[0] for hid in fails if hid.endswith("_small")}
    order = sorted(fails, key=lambda h: (0 if h.endswith("_small") or h.split("::")[0] in ("c2_u8", "c2_i8") else 1, h))
    for hid in order:
        r = fails[hid]
        rep.discharged += 1
        if done >= 2 or (not hid.endswith("_small") and hid.split("::")[0] in small_failed):
            rep.extra.setdefault("candidates_not_replayed", []).append(hid)
            continue
        done += 1
        confirm_layout(rep, crate_dir, hid, r, harness_timeout, files, M)


def confirm_layout(rep, crate_dir, hid, r, harness_timeout, files, M):
    """turn the solver's layout into a real declaration and run the derived functions"""
    from . import corpus as C
    from . import replay as RP
    prop = rep.prop
    repr_ = hid.split("::")[0][3:]
    case = "layout_" + repr_ + ("_small" if hid.endswith("_small") else "")
    tests, pout = RP.concrete_values(crate_dir, hid, harness_timeout, os.path.join(K.WORK, prop, "playback_%s.log" % case))
    desc = "; ".join(sorted({c.get("description", "") for c in r.failures}))[:300]
    entry = {"harness": hid, "kind": "layout_lemma", "status": "fail", "failed_checks": desc}
    rep.harness_results[hid] = entry
    if not tests:
        entry["status"] = "unreproduced"
        entry["reason"] = "no concrete layout printed"
        rep.unreproduced.append(entry)
        return
    vals = tests[0]

    def i64(v):
        return int.from_bytes(bytes(v), "little", signed=True)
    try:
        m = int.from_bytes(bytes(vals[0]), "little")
        runs = [(i64(vals[1 + 2 * j]), i64(vals[2 + 2 * j])) for j in range(m)]
        jx = int.from_bytes(bytes(vals[1 + 2 * m]), "little")
        x = i64(vals[2 + 2 * m])
    except Exception as ex:
        entry["status"] = "unreproduced"
        entry["reason"] = "cannot decode layout: %s" % ex
        rep.unreproduced.append(entry)
        return
    values = [v for (b, e) in runs for v in range(b, e + 1)]
    entry["layout"] = {"repr": repr_, "runs": runs, "variant": x, "n": len(values)}
    if len(values) > 2000 and any(v.key.get("kind") == "layout" for v in rep.violations):
        entry["status"] = "candidate_not_replayed"
        rep.extra.setdefault("candidates_not_replayed", []).append(hid)
        return
    if len(values) > 70000 or len(values) < 1:
        entry["status"] = "unreproduced"
        entry["reason"] = "layout too large to derive"
        rep.unreproduced.append(entry)
        return
    d = C.mk("layout_" + repr_, repr_, values, "C2", order="sorted", implicit="max")
    rank = values.index(x)
    rdir = os.path.join(RP.REPLAYS, prop, case)
    verdicts = {}
    for itmode in (["table", "next_and_back"] if "range_fn" in files else ["-"]):
        feats = {}
        if "as_str_fn" in files:
            feats["as_str"] = {"mode": "table"}
        if "range_fn" in files:
            feats["iter"] = {"mode": itmode}
            feats["range"] = None
            feats["MIN"] = None
        if "from_str_fn" in files:
            feats["from_str"] = {"mode": "table"}
        if "from_str_trait" in files:
            feats["FromStr"] = {"mode": "table"}
        b = C.Bundle("L", feats)
        mod = E.Module(d, b, prop)
        body = ["let v = SORTED[%d];" % rank]
        if "as_str_fn" in files:
            body.append('assert!(eq_str(E::as_str(v), NAMES[%d]), "as_str(v) is not v\'s name");' % rank)
        if "from_str_fn" in files:
            body.append('match E::from_str(NAMES[%d]) {\n    Some(w) => assert!(w as R == v as R, "from_str(name) is another variant"),\n    None => assert!(false, "from_str(name) is None"),\n}' % rank)
        if "from_str_trait" in files:
            body.append('match NAMES[%d].parse::<E>() {\n    Ok(w) => assert!(w as R == v as R, "FromStr(name) is another variant"),\n    Err(()) => assert!(false, "FromStr(name) is Err"),\n}' % rank)
        if "range_fn" in files:
            body.append('assert!(E::range(E::MIN, v).len() == %d, "range(MIN, v).len()");' % (rank + 1))
            body.append('assert!(E::range(v, v).len() == 1, "range(v, v).len()");')
            body.append('assert!(E::range(v, E::MIN).len() == %d, "range(v, MIN).len()");' % (1 if rank == 0 else 0))
        mod.add(E.Harness("h_confirm", "\n".join(body), 4, "layout_confirm", "-", []))
        RP.write_replay_crate(rdir, mod.name, mod.text(), mod.name + "::h_confirm", [], repo=REPO)
        for prof in ("dev", "release"):
            rc, out = RP.run_native(rdir, prof, timeout=1800)
            verdicts[prof + "/" + itmode] = RP.verdict(rc, out)
        if "reproduced" in verdicts.values():
            break
    what = ("index arithmetic wrong for a derivable layout: #[repr(%s)] runs %s, variant with discriminant %d (rank %d of %d): %s"
            % (repr_, runs if len(runs) <= 6 else runs[:6], x, rank, len(values), desc))
    if "reproduced" in verdicts.values():
        entry["replay"] = rdir
        pm = D._panic_message(rdir)
        rep.violations.append(D.Violation(prop, {"kind": "layout", "repr": repr_, "runs": len(runs), "n": len(values), "check": desc},
                                          what + (" -- native: " + pm if pm else ""), rdir, {"harness": hid}))
    elif "builderror" in verdicts.values():
        entry["status"] = "unreproduced"
        entry["reason"] = "the counterexample layout could not be derived/compiled (%s)" % verdicts
        rep.unreproduced.append(entry)
    else:
        entry["status"] = "unreproduced"
        entry["reason"] = "the real derive handles this layout correctly (%s): the assembled lemma misrepresents the code" % verdicts
        rep.unreproduced.append(entry)
