"""Engine C3 - the bodies of next / next_back / try_from / TryFrom with SYMBOLIC run layouts.

Engine A executes the derive's real output, but only for corpus declarations.  Engine C3
lifts the bound on declarations for the four value-order functions: on every run it cuts
the function bodies (gapless and with-holes variant) out of the `quote!` templates in
  src/feature/next_fn.rs, next_back_fn.rs, try_from_fn.rs, try_from_trait.rs,
substitutes the interpolations textually (`#repr` -> R, `Self::#ident_min as #repr` -> min,
`Self::#ident_table_range` -> table, `self as #repr` -> this.0, `transmute(x)` -> mk(table, x)
which asserts that x is a declared discriminant) and compiles them as ordinary functions
over a range table whose layout (number of runs <= M, every start and end anywhere in the
repr type within the i64 domain, holes >= 1) is symbolic.  A counterexample is a layout,
i.e. a declaration: it is derived for real and the derived function is called natively.
"""
import os
import re

from . import kani as K
from . import emit_l2 as E
from . import driver as D
from .emit_l1 import RawModule, REPO

FILES = {
    "next": "src/feature/next_fn.rs",
    "next_back": "src/feature/next_back_fn.rs",
    "try_from": "src/feature/try_from_fn.rs",
    "TryFrom": "src/feature/try_from_trait.rs",
}


def _match_brace(s, i):
    """s[i] == '{' -> index of the matching '}' (comments and strings are not expected to hold braces)"""
    depth = 0
    k = i
    in_line_comment = False
    while k < len(s):
        c = s[k]
        if in_line_comment:
            if c == "\n":
                in_line_comment = False
        elif s.startswith("//", k):
            in_line_comment = True
        elif c == "{":
            depth += 1
        elif c == "}":
            depth -= 1
            if depth == 0:
                return k
        k += 1
    return -1


def _rustify(body):
    s = body
    s = s.replace("#repr", "R")
    s = re.sub(r"Self::#ident_min\s+as\s+R", "min", s)
    s = re.sub(r"Self::#ident_max\s+as\s+R", "max", s)
    s = re.sub(r"Self::#ident_table_range", "table", s)
    s = re.sub(r"#ident_enum::#ident_table_range", "table", s)
    s = re.sub(r"\bself\s+as\s+R\b", "this.0", s)
    s = re.sub(r"(?:::)?core::mem::transmute\s*\(", "mk(table, ", s)
    s = s.replace("Self::Error", "()")
    s = re.sub(r"\bSelf\b", "E", s)
    s = re.sub(r"\bself\b", "this", s)
    return s


def extract_c3():
    """-> {feature: {"gapless": (ret, body, line), "holes": (...)}} ; features whose template
    cannot be cut out are missing"""
    out = {}
    for feat, fn in FILES.items():
        try:
            src = open(os.path.join(REPO, fn)).read()
        except OSError:
            continue
        g = src.find("is_gapless()")
        if g < 0:
            continue
        q1 = src.find("quote!", g)
        if q1 < 0:
            continue
        b1 = src.find("{", q1)
        e1 = _match_brace(src, b1)
        q2 = src.find("quote!", e1)
        if e1 < 0 or q2 < 0:
            continue
        b2 = src.find("{", q2)
        e2 = _match_brace(src, b2)
        if e2 < 0:
            continue
        neg = bool(re.search(r"!\s*derive\.mode\.is_gapless\(\)", src[max(0, g - 40):g + 14]))
        parts = {}
        for kind, (b, e) in zip(("holes", "gapless") if neg else ("gapless", "holes"), ((b1, e1), (b2, e2))):
            t = src[b + 1:e]
            m = re.search(r"fn\s+#?\w+\s*\(([^)]*)\)\s*->\s*([^{]+)\{", t)
            if not m:
                break
            fb = m.end() - 1
            fe = _match_brace(t, fb)
            if fe < 0:
                break
            body = _rustify(t[fb:fe + 1])
            ret = _rustify(m.group(2).strip())
            if "#" in body or "#" in ret:
                break
            parts[kind] = (ret, body, src[:b + 1 + fb].count("\n") + 1, _rustify(m.group(1)))
        if len(parts) == 2:
            out[feat] = parts
    return out


C3_TEMPLATE = """
pub mod c3_@R@ {
    #![allow(unused_variables, unused_imports, unused_mut, unused_unsafe, dead_code, clippy::all)]
    #[cfg(not(kani))]
    use crate::kani;
    use core::ops::RangeInclusive;
    pub type R = @R@;
    pub type U = @U@;
    pub const M: usize = @M@;
    pub const LO: i64 = @LO@;
    pub const HI: i64 = @HI@;
    pub type Table = [(RangeInclusive<R>, U)];

    #[derive(Clone, Copy)]
    pub struct E(pub R);

    /// stands for `transmute::<R, Enum>(x)`: undefined behaviour unless x is a declared discriminant
    #[inline(always)]
    fn mk(table: &Table, x: R) -> E {
        let mut ok = false;
        let mut i = 0;
        while i < table.len() {
            if table[i].0.contains(&x) {
                ok = true;
            }
            i += 1;
        }
        assert!(ok, "UB: transmute of a value that is not a declared discriminant");
        E(x)
    }
@FNS@
    struct Layout {
        m: usize,
        b: [i64; M],
        e: [i64; M],
        table: [(RangeInclusive<R>, U); M],
    }
    fn layout<const MAXN: i64>() -> Layout {
        let m: usize = kani::any();
        kani::assume(m >= 1 && m <= M);
        let mut b = [0i64; M];
        let mut e = [0i64; M];
        let mut table: [(RangeInclusive<R>, U); M] = [@EMPTYTABLE@];
        let mut total: i64 = 0;
        let mut j = 0;
        while j < m {
            let b0: i64 = kani::any();
            let e0: i64 = kani::any();
            kani::assume(LO <= b0 && b0 <= e0 && e0 <= HI);
            kani::assume((e0 as i128) - (b0 as i128) < MAXN as i128);
            if j > 0 {
                kani::assume((b0 as i128) > (e[j - 1] as i128) + 1); // a hole between two runs
            }
            b[j] = b0;
            e[j] = e0;
            table[j] = (RangeInclusive::new(b0 as R, e0 as R), 0 as U);
            total += e0 - b0 + 1;
            kani::assume(total <= MAXN); // number of variants (documented limit 65534)
            j += 1;
        }
        Layout { m, b, e, table }
    }
    fn member(l: &Layout) -> (usize, i64) {
        let j: usize = kani::any();
        kani::assume(j < l.m);
        let x: i64 = kani::any();
        kani::assume(l.b[j] <= x && x <= l.e[j]);
        kani::cover!(l.m == M, "maximal number of runs");
        kani::cover!(l.m == 1, "gapless layout");
        kani::cover!(x == l.e[j] && j + 1 < l.m, "last variant of a run that is not the last");
        kani::cover!(x == l.b[j] && j > 0, "first variant of a run that is not the first");
        (j, x)
    }
@HARNESSES@
}
"""

H_NEXT = """
    fn check_next<const MAXN: i64>() {
        let l = layout::<MAXN>();
        let (j, x) = member(&l);
        let (min, max) = (l.b[0] as R, l.e[l.m - 1] as R);
        let table = &l.table[..l.m];
        let r: Option<E> = if l.m == 1 { next_gapless(E(x as R), min, max, table) } else { next_holes(E(x as R), min, max, table) };
        let expect: Option<i64> = if x < l.e[j] { Some(x + 1) } else if j + 1 < l.m { Some(l.b[j + 1]) } else { None };
        kani::cover!(x as R == R::MAX, "variant at the upper limit of the repr type");
        match (r, expect) {
            (Some(v), Some(w)) => assert!(v.0 == w as R, "@SITE@: next(v) is not the variant with the smallest discriminant greater than v's"),
            (None, None) => {}
            (Some(_), None) => assert!(false, "@SITE@: next(MAX) is not None"),
            (None, Some(_)) => assert!(false, "@SITE@: next(v) is None although v is not MAX"),
        }
    }
"""

H_NEXT_BACK = """
    fn check_next_back<const MAXN: i64>() {
        let l = layout::<MAXN>();
        let (j, x) = member(&l);
        let (min, max) = (l.b[0] as R, l.e[l.m - 1] as R);
        let table = &l.table[..l.m];
        let r: Option<E> = if l.m == 1 { next_back_gapless(E(x as R), min, max, table) } else { next_back_holes(E(x as R), min, max, table) };
        let expect: Option<i64> = if x > l.b[j] { Some(x - 1) } else if j > 0 { Some(l.e[j - 1]) } else { None };
        kani::cover!(x as R == R::MIN, "variant at the lower limit of the repr type");
        match (r, expect) {
            (Some(v), Some(w)) => assert!(v.0 == w as R, "@SITE@: next_back(v) is not the variant with the largest discriminant smaller than v's"),
            (None, None) => {}
            (Some(_), None) => assert!(false, "@SITE@: next_back(MIN) is not None"),
            (None, Some(_)) => assert!(false, "@SITE@: next_back(v) is None although v is not MIN"),
        }
    }
"""

H_TRY = """
    fn check_@NAME@<const MAXN: i64>() {
        let l = layout::<MAXN>();
        let (min, max) = (l.b[0] as R, l.e[l.m - 1] as R);
        let table = &l.table[..l.m];
        let n: R = kani::any();
        let mut declared = false;
        let mut j = 0;
        while j < l.m {
            if (l.b[j] as i128) <= (n as i128) && (n as i128) <= (l.e[j] as i128) {
                declared = true;
            }
            j += 1;
        }
        kani::cover!(l.m == M, "maximal number of runs");
        kani::cover!(declared, "declared value");
        kani::cover!(!declared && (n as i128) > (l.b[0] as i128) && (n as i128) < (l.e[l.m - 1] as i128), "value in a hole");
        kani::cover!(!declared && ((n as i128) < (l.b[0] as i128) || (n as i128) > (l.e[l.m - 1] as i128)), "value outside MIN..=MAX");
        let r = if l.m == 1 { @NAME@_gapless(E(0 as R), n, min, max, table) } else { @NAME@_holes(E(0 as R), n, min, max, table) };
        let got: Option<R> = @TOOPT@;
        match got {
            Some(v) => {
                assert!(declared, "@SITE@: @WHAT@(n) succeeds although no variant has discriminant n");
                assert!(v == n, "@SITE@: @WHAT@(n) returns a variant whose discriminant is not n");
            }
            None => assert!(!declared, "@SITE@: @WHAT@(n) fails although a variant has discriminant n"),
        }
    }
"""

H_PROOF = """
    #[cfg_attr(kani, kani::proof)]
    #[cfg_attr(kani, kani::unwind(@UNWIND@))]
    pub fn h_@NAME@() {
        check_@NAME@::<@MAXN@>()
    }
    #[cfg_attr(kani, kani::proof)]
    #[cfg_attr(kani, kani::unwind(@UNWIND@))]
    pub fn h_@NAME@_small() {
        check_@NAME@::<300>()
    }
"""

IDENT = {"next": "next", "next_back": "next_back", "try_from": "try_from", "TryFrom": "try_from_trait"}


def engine_c3(rep, feats, M, harness_timeout, reprs=None):
    """feats: subset of FILES' keys"""
    from . import corpus as C
    from .emit_l1 import _companions
    prop = rep.prop
    ex = extract_c3()
    comp = _companions()
    feats = [f for f in feats if f in ex]
    missing = [f for f in FILES if f not in ex]
    if missing:
        rep.skipped.append({"module": "engine_c3", "what": "function template not found / not cut out for %s (refactored): skipped there" % missing})
    if not feats or not comp:
        rep.skipped.append({"module": "engine_c3", "what": "no function body could be cut out of the templates: symbolic-layout lemma skipped"})
        return
    fns, hs = [], []
    for f in feats:
        ident = IDENT[f]
        site = os.path.basename(FILES[f])
        for kind in ("gapless", "holes"):
            ret, body, line, params = ex[f][kind]
            args = "this: E, " + ("value: R, " if f in ("try_from", "TryFrom") else "")
            fns.append("    /// %s:%d (%s template)\n    #[allow(unreachable_code)]\n    fn %s_%s(%smin: R, max: R, table: &Table) -> %s %s"
                       % (FILES[f], line, kind, ident, kind, args, ret, body))
        if f == "next":
            hs.append(H_NEXT.replace("@SITE@", site))
        elif f == "next_back":
            hs.append(H_NEXT_BACK.replace("@SITE@", site))
        else:
            hs.append(H_TRY.replace("@NAME@", ident).replace("@SITE@", site)
                      .replace("@WHAT@", "try_from" if f == "try_from" else "TryFrom::try_from")
                      .replace("@TOOPT@", "r.map(|e| e.0)" if f == "try_from" else "r.ok().map(|e| e.0)"))
    reprs = [r for r in (reprs or list(C.REPRS)) if r in comp]
    lib = ""
    for r in reprs:
        bits, signed = C.REPRS[r]
        maxn = min(65534, 2 ** bits)
        proofs = "".join(H_PROOF.replace("@NAME@", IDENT[f]).replace("@MAXN@", str(maxn)) for f in feats)
        lib += (C3_TEMPLATE.replace("@FNS@", "\n".join(fns)).replace("@HARNESSES@", "\n".join(hs) + proofs)
                .replace("@R@", r).replace("@U@", comp[r]).replace("@M@", str(M))
                .replace("@LO@", str(C.rmin(r))).replace("@HI@", str(C.rmax(r)))
                .replace("@UNWIND@", str(M + 2))
                .replace("@EMPTYTABLE@", ", ".join(["(RangeInclusive::new(1 as R, 0 as R), 0 as U)"] * M)))
    base = os.path.join(K.WORK, prop)
    crate_dir = os.path.join(base, "crate_c3")
    empty = RawModule("empty", "// (Engine C3: the harnesses live in lib.rs)\n")
    E.write_crate(crate_dir, "vt_%s_c3" % prop.lower(), [empty], repo=REPO, extra_lib=lib, deps="")
    ok, errors, dt = K.native_check(crate_dir, log=os.path.join(base, "prepass_c3.log"))
    if not ok or errors:
        rep.skipped.append({"module": "engine_c3", "what": "assembled function bodies do not compile (templates refactored): symbolic-layout lemma skipped: " +
                            "; ".join(sorted({e["message"] for e in errors}))[:300]})
        return
    rep.engines.append("C3")
    ids = {}
    for r in reprs:
        hm = RawModule("c3_" + r)
        for f in feats:
            sym = ("the run layout itself: up to %d runs with symbolic start/end anywhere in %s (within the i64 domain), %s; function body: %s (gapless and with-holes template)"
                   % (M, r, "every value n of the repr type" if f in ("try_from", "TryFrom") else "symbolic variant", FILES[f]))
            cov = ["maximal number of runs"]
            if f in ("try_from", "TryFrom"):
                cov += ["declared value", "value in a hole", "value outside MIN..=MAX"]
            else:
                cov += ["gapless layout", "last variant of a run that is not the last", "first variant of a run that is not the first"]
            hm.harnesses.append(E.Harness("h_" + IDENT[f], "", M + 2, "layout_fn", sym + "; <= min(65534, 2^bits) variants", cov))
            if C.REPRS[r][0] > 8:
                hm.harnesses.append(E.Harness("h_" + IDENT[f] + "_small", "", M + 2, "layout_fn_small", sym + "; <= 300 variants", cov))
        for hid, hh in hm.harness_ids().items():
            ids[hid] = (hm, hh)
    jpath = os.path.join(base, "kani_c3.json")
    rc, out, dt, data = K.cargo_kani(crate_dir, jpath, harness_timeout, jobs=min(16, len(ids)), harnesses=list(ids),
                                     log=os.path.join(base, "kani_c3.log"))
    if data is None:
        rep.infra_errors.append("cargo kani (Engine C3) produced no result file; see " + os.path.join(base, "kani_c3.log"))
        return
    results = K.classify(data, out)
    rep.bounds["engine_C3"] = {"runs": M, "reprs": reprs, "variants": "<= min(65534, 2^bits)",
                               "functions": {f: {k: "%s:%d" % (FILES[f], ex[f][k][2]) for k in ("gapless", "holes")} for f in feats}}
    rep.stubs.append("Engine C3: the function bodies are text cut out of the quote! templates with the interpolations substituted (#repr, MIN/MAX as #repr, the range table, `self as #repr`); `transmute(x)` is replaced by a constructor that asserts x is a declared discriminant; the enum is a newtype over the repr; a counterexample layout is confirmed by really deriving an enum with that layout")
    fails = {hid: r for hid, r in results.items() if r.status == "fail"}
    oks = {hid: r for hid, r in results.items() if r.status != "fail"}
    D.collect(rep, {h: v for h, v in ids.items() if h in oks or h not in results}, oks, out, crate_dir, harness_timeout, 0,
              extra_lib=lib, deps="")
    done = {}
    small_failed = {hid[:-6] for hid in fails if hid.endswith("_small")}
    order = sorted(fails, key=lambda h: (0 if h.endswith("_small") or h.split("::")[0] in ("c3_u8", "c3_i8") else 1, h))
    for hid in order:
        r = fails[hid]
        rep.discharged += 1
        fn = hid.split("::")[1]
        fn = fn[2:-6] if fn.endswith("_small") else fn[2:]
        if done.get(fn, 0) >= 1 or (not hid.endswith("_small") and hid in small_failed):
            rep.extra.setdefault("candidates_not_replayed", []).append(hid)
            continue
        if confirm_layout_fn(rep, crate_dir, hid, r, harness_timeout, fn, M):
            done[fn] = done.get(fn, 0) + 1


def confirm_layout_fn(rep, crate_dir, hid, r, harness_timeout, fn, M):
    """turn the solver's layout into a real declaration and call the derived function natively.
    -> True when a violation was reproduced"""
    from . import corpus as C
    from . import replay as RP
    prop = rep.prop
    repr_ = hid.split("::")[0][3:]
    case = "layoutfn_%s_%s" % (repr_, hid.split("::")[1][2:])
    tests, pout = RP.concrete_values(crate_dir, hid, harness_timeout, os.path.join(K.WORK, prop, "playback_%s.log" % case))
    desc = "; ".join(sorted({c.get("description", "") for c in r.failures}))[:300]
    entry = {"harness": hid, "kind": "layout_fn", "status": "fail", "failed_checks": desc}
    rep.harness_results[hid] = entry
    if not tests:
        entry["status"] = "unreproduced"
        entry["reason"] = "no concrete layout printed"
        rep.unreproduced.append(entry)
        return False
    bits, signed = C.REPRS[repr_]

    def i64(v):
        return int.from_bytes(bytes(v), "little", signed=True)
    reproduced = False
    last_reason = None
    for vals in tests[:3]:
        try:
            m = int.from_bytes(bytes(vals[0]), "little")
            runs = [(i64(vals[1 + 2 * j]), i64(vals[2 + 2 * j])) for j in range(m)]
            if fn in ("next", "next_back"):
                x = i64(vals[2 + 2 * m])
            else:
                x = int.from_bytes(bytes(vals[1 + 2 * m]), "little", signed=signed)
        except Exception as exn:
            last_reason = "cannot decode layout: %s" % exn
            continue
        values = [v for (b, e) in runs for v in range(b, e + 1)]
        entry["layout"] = {"repr": repr_, "runs": runs, "argument": x, "n": len(values)}
        if len(values) > 70000 or len(values) < 1 or values != sorted(set(values)):
            last_reason = "layout not derivable (%d values)" % len(values)
            continue
        d = C.mk("layoutfn_" + repr_, repr_, values, "C3", order="sorted", implicit="max")
        feat = {"next": "next", "next_back": "next_back", "try_from": "try_from", "try_from_trait": "TryFrom"}[fn]
        b = C.Bundle("L", {feat: None})
        mod = E.Module(d, b, prop)
        sfx = repr_
        if fn in ("next", "next_back"):
            k = values.index(x)
            if fn == "next":
                exp = values[k + 1] if k + 1 < len(values) else None
            else:
                exp = values[k - 1] if k > 0 else None
            call = "E::%s(SORTED[%d])" % (fn, k)
            if exp is None:
                body = ['assert!(%s.is_none(), "%s of the extreme variant must be None");' % (call, fn)]
            else:
                body = ['match %s {\n    Some(w) => assert!(w as R == (%d%s), "%s(v) is the wrong variant"),\n    None => assert!(false, "%s(v) is None"),\n}'
                        % (call, exp, sfx, fn, fn)]
        else:
            call = ("E::try_from(%d%s)" % (x, sfx)) if fn == "try_from" else ("<E as ::core::convert::TryFrom<R>>::try_from(%d%s).ok()" % (x, sfx))
            if x in values:
                body = ['match %s {\n    Some(w) => assert!(w as R == (%d%s), "try_from(n) returns another variant"),\n    None => assert!(false, "try_from(n) fails for a declared discriminant"),\n}'
                        % (call, x, sfx)]
            else:
                body = ['let r: Option<E> = %s;\nassert!(r.is_none(), "try_from(n) succeeds for an undeclared value");' % call]
        mod.add(E.Harness("h_confirm", "\n".join(body), 4, "layout_confirm", "-", []))
        rdir = os.path.join(RP.REPLAYS, prop, case)
        RP.write_replay_crate(rdir, mod.name, mod.text(), mod.name + "::h_confirm", [], repo=REPO)
        verdicts = {}
        for prof in ("dev", "release"):
            rc, out = RP.run_native(rdir, prof, timeout=1800)
            verdicts[prof] = RP.verdict(rc, out)
        what = ("%s wrong for a derivable layout: #[repr(%s)] runs %s, argument %d (%d variants): %s"
                % (fn, repr_, runs if len(runs) <= 6 else runs[:6], x, len(values), desc))
        if "reproduced" in verdicts.values():
            entry["replay"] = rdir
            pm = D._panic_message(rdir)
            rep.violations.append(D.Violation(prop, {"kind": "layout_fn", "fn": fn, "repr": repr_, "runs": len(runs), "check": desc},
                                              what + (" -- native: " + pm if pm else ""), rdir, {"harness": hid}))
            reproduced = True
            break
        last_reason = ("the counterexample layout could not be derived/compiled (%s)" % verdicts if "builderror" in verdicts.values()
                       else "the real derive handles this layout correctly (%s): the assembled lemma misrepresents the code" % verdicts)
    if not reproduced:
        entry["status"] = "unreproduced"
        entry["reason"] = last_reason
        rep.unreproduced.append(entry)
    return reproduced
