import os
import subprocess
import sys

from . import driver as D
from . import props as P
from . import kani as K
from . import emit_l1 as L1
from . import emit_l3 as L3

COMMON_ASSUMPTIONS = [
    "the program verified is rustc's MIR of the real derive expansion (Kani's pinned nightly, dev profile, overflow checks on), translated by kani-compiler 0.68 and decided by CBMC 6.11 + CaDiCaL",
    "release-profile behaviour is exercised only by native replay of counterexamples",
    "the oracle tables DISC/SORTED/NAMES come from the declaration text by Rust's discriminant rule and are tied to rustc by a const assertion SORTED[k] as R == DISC[k] in every module",
    "std's own iterator implementations are trusted beyond the bounded operation sequences",
]
COMMON_OUTSIDE = [
    "declarations outside the generated corpus (the solver quantifies over inputs, not over declarations)",
    "u128/i128 enums for which rustc places Option<E>'s niche at a negative tag value (min-1 closer to zero than max+1, e.g. any 128-bit enum starting at 0): kani-compiler 0.68 ICE (rvalue.rs:1009); other 128-bit shapes are in the corpus (K9)",
    "32-bit usize/isize targets",
    "enums with more than 1000 variants",
]

RULES = {
    "C01": "one obligation = (declaration, bundle, harness kind); every value n of the repr type and every variant index is symbolic; non-trivial = all checks decided and the vacuity witnesses (declared / undeclared value reached) satisfied",
    "C02": "one obligation = (declaration, bundle, derived function group) with fully symbolic arguments; verdict restricted to UB-class checks (invalid enum construction, unreachable_unchecked, pointer checks, 'UB:' assertions incl. the double-call determinism detector for uninitialised reads)",
    "C03": "one obligation = (declaration, as_str-mode bundle, as_str|fmt harness); variant index symbolic; names compared byte-wise with the oracle NAMES",
    "C04": "one obligation = (declaration, from_str/FromStr mode bundle, harness); from_str_pos: index of the parsed name symbolic; from_str_sym: every valid UTF-8 string up to L bytes symbolic, membership oracle is a byte-comparison formula emitted from the declaration",
    "C05": "one obligation = (declaration, bundle, minmax_next); variant index symbolic",
    "C06": "one obligation = (declaration, iterator-mode bundle, harness); next_and_back: inductive step from an arbitrary private state under the representation invariant; std-backed modes: S symbolic operations + content via symbolic nth/nth_back + whole-iterator consumers",
    "C07": "one obligation = (declaration, iterator-mode bundle + range, harness); both end points symbolic over all ordered pairs incl. a == b and a > b",
    "C08": "one obligation = (declaration, bundle with names, harness); item type &'static str compared byte-wise with NAMES",
    "C11": "one obligation = (literal-spelling declaration, bundle, harness): the derive's tables agree with the discriminants rustc assigned for every n",
}


def run_engine_a_property(pid, tier, seed):
    rep = D.Report(pid, tier, seed)
    mods = P.PLANS[pid](tier, seed)
    only = os.environ.get("VT_ONLY")
    if only:  # debugging aid: restrict to modules whose name contains one of the substrings
        mods = [m for m in mods if any(x in m.name for x in only.split(","))]
    seen = {}
    for m in mods:
        seen.setdefault(m.decl.name, m.decl)
    rep.corpus = [d.describe() for d in seen.values()]
    rep.bounds = {
        "declarations": len(seen), "modules": len(mods),
        "harnesses": sum(len(m.harnesses) for m in mods),
        "unwind": "per harness (#runs+2, name length+2, table size+2 as applicable); unwinding assertions on, doubled on failure",
        "max_variants": max(d.n for d in seen.values()),
        "reprs": sorted({d.repr for d in seen.values()}),
        "seed": seed,
    }
    ht = 300 if tier == "quick" else 1200
    D.engine_a(rep, mods, ht, compile_violation=(pid != "C02"))
    if pid == "C11":
        # "sizes up to the 65534 limit": observed by compiling (rustc, not the solver)
        D.base_case_compile(rep, P.c11_base_cases())
    if pid == "C01":
        # lemma: the run table every with-holes function trusts, with SYMBOLIC discriminants
        L1.engine_c(rep, 4 if tier == "quick" else 8, ht)
    if pid in ("C01", "C02", "C05"):
        # the bodies of next/next_back/try_from/TryFrom over SYMBOLIC run layouts (all 12 reprs)
        L3.engine_c3(rep, {"C01": ["try_from", "TryFrom"], "C05": ["next", "next_back"],
                           "C02": ["next", "next_back", "try_from", "TryFrom"]}[pid],
                     3 if tier == "quick" else 5, ht,
                     # measured: the u128/i128 layout harnesses need > 270 s and 2.6 GB each under
                     # load; they are part of the thorough tier only
                     reprs=None if tier != "quick" else ["u8", "i8", "u16", "i16", "u32", "i32", "u64", "i64", "usize", "isize"])
    if pid in ("C03", "C07", "C04"):
        # the table-index arithmetic with SYMBOLIC run layouts (all 12 reprs)
        L1.engine_c2(rep, {"C03": ["as_str_fn"], "C07": ["range_fn"], "C04": ["from_str_fn", "from_str_trait"]}[pid],
                     3 if tier == "quick" else 5, ht)
    return D.finish(rep, RULES[pid], COMMON_ASSUMPTIONS, COMMON_OUTSIDE)


def _corpus(rep, mods):
    seen = {}
    for m in mods:
        for d in ([m.a.decl, m.b.decl] if hasattr(m, "a") else [m.decl]):
            seen.setdefault(d.name, d)
    rep.corpus = [d.describe() for d in seen.values()]
    rep.bounds.update({
        "declarations": len(seen), "modules": len(mods),
        "harnesses": sum(len(m.harnesses) for m in mods),
        "unwind": "per harness; unwinding assertions on, doubled on failure",
        "max_variants": max([d.n for d in seen.values()] or [0]),
        "reprs": sorted({d.repr for d in seen.values()}),
        "seed": rep.seed,
    })


B_ASSUME = [
    "Engine B: the real src/generator/features.rs + every feature's check() included by #[path]; Features built as Derive::parse would (disabled feature => mode auto, helper tables disabled)",
    "Engine B: the legality predicate (range => iter and not table_inline; iter range => gapless) and the template-reference table are read from src/lib.rs and the quote! templates by hand and are part of the oracle",
]


def run_C13(tier, seed):
    rep = D.Report("C13", tier, seed)
    L1.engine_b(rep, ["h_resolve_illegal", "h_resolve_legal", "h_witness_reaches_end"], 600 if tier == "quick" else 1800)
    # "iter range mode on an enum with holes" presupposes that holes are recognised: the run
    # splitting loop with symbolic discriminants (one run <=> consecutive values)
    L1.engine_c(rep, 4 if tier == "quick" else 8, 600 if tier == "quick" else 1800)
    rep.extra["claimed_clauses"] = ["range without iter", "range with iter(mode=table_inline)", "iter(mode=range) on an enum with holes"]
    rep.extra["clauses_outside_the_claim"] = ["unknown/duplicate feature or parameter", "wrong value kind", "mode/visibility whitelist", "variant-level attribute (all in the HashMap/syn parser, not encodable)"]
    return D.finish(rep, "one obligation = one Engine B harness; each covers ALL configurations in one query; non-trivial = the three illegal shapes are each reachable (cover witnesses)",
                    COMMON_ASSUMPTIONS[:2] + B_ASSUME, ["the parser-level clauses of C13", "u128/i128 only through repr_size 16 in the resolver"])


def run_C09(tier, seed):
    rep = D.Report("C09", tier, seed)
    ht = 300 if tier == "quick" else 1200
    L1.engine_b(rep, ["h_resolve_legal", "h_witness_reaches_end"], 600)
    mods = P.plan_C09_pairs(tier, seed)
    _corpus(rep, mods)
    D.engine_a(rep, mods, ht, compile_violation=False, crate_tag="d")
    return D.finish(rep, "Engine B: all configurations in one query (auto resolves only to documented explicit modes legal for the shape, explicit modes untouched). Engine A: one obligation = (declaration, configuration pair, differential harness) with the same symbolic input given to both derives",
                    COMMON_ASSUMPTIONS + B_ASSUME, COMMON_OUTSIDE + ["configuration pairs outside the bundle list (every explicit mode is additionally tied to the same oracle by C01-C08)"])


def run_C18(tier, seed):
    rep = D.Report("C18", tier, seed)
    ht = 300 if tier == "quick" else 1200
    mods = P.plan_C18_pairs(tier, seed) + P.plan_C18_oracle(tier, seed)
    _corpus(rep, mods)
    D.engine_a(rep, mods, ht, compile_violation=False, crate_tag="d")
    # repr independence of the index casts (unsigned companion type), symbolic layouts, 12 reprs
    L1.engine_c2(rep, ["as_str_fn", "range_fn"], 3 if tier == "quick" else 5, ht)
    return D.finish(rep, "one obligation = (pair of declarations with the same discriminant->name map but different declaration order / repr, differential harness) or (family member, oracle harness against the map's DISC/NAMES)",
                    COMMON_ASSUMPTIONS, COMMON_OUTSIDE + ["permutations other than sorted/reversed/seeded shuffle"])


def run_C10(tier, seed):
    rep = D.Report("C10", tier, seed)
    ht = 300 if tier == "quick" else 1200
    L1.engine_b(rep, ["h_needs", "h_resolve_legal", "h_witness_reaches_end"], 600)
    D.base_case_compile(rep, P.base_cases())
    mods = P.plan_C10_split(tier, seed)
    _corpus(rep, mods)
    D.engine_a(rep, mods, ht, compile_violation=False, crate_tag="d")
    return D.finish(rep, "Engine B: dependency closure for ALL configurations (every helper a resolved template refers to is enabled; no enabled item left on auto; range only with a mode that has a template). Base cases: every documented feature/mode/parameter compiled on a gapless and a with-holes enum (rustc, listed separately). Engine A: one attribute vs several attributes, differential",
                    COMMON_ASSUMPTIONS + B_ASSUME, COMMON_OUTSIDE + ["that rustc accepts configurations other than the compiled base cases (reduced to them by the closure argument)", "name clashes the user creates"])


def main(argv):
    if not argv:
        print(__doc__ or "usage: check <ID> [--tier quick|thorough]")
        return 2
    if argv[0] == "replay":
        path = argv[1]
        rel = "--release" in argv
        cmd = ["cargo", "run", "--offline", "--quiet", "--bin", "replay", "--target-dir",
               os.path.join(K.WORK, "target-replay")] + (["--release"] if rel else [])
        if not os.path.exists(os.path.join(path, "src", "replay.rs")):
            # a declaration the real macro / rustc rejects: `build`, not `check` (const-eval
            # errors of the derive's tables only appear at code generation)
            cmd = ["cargo", "build", "--offline", "--lib", "--target-dir", os.path.join(K.WORK, "target-replay")]
        return subprocess.call(cmd, cwd=path)
    pid = argv[0]
    tier = os.environ.get("VERIF_TIER", "quick")
    if "--tier" in argv:
        tier = argv[argv.index("--tier") + 1]
    if tier not in ("quick", "thorough"):
        tier = "quick"
    try:
        seed = int(os.environ.get("VERIF_SEED", "1"))
    except ValueError:
        seed = 1
    os.makedirs(K.WORK, exist_ok=True)
    if pid in P.PLANS:
        return run_engine_a_property(pid, tier, seed)
    special = {"C09": run_C09, "C10": run_C10, "C13": run_C13, "C18": run_C18}
    if pid in special:
        return special[pid](tier, seed)
    print("unknown or not-applicable property: %s" % pid)
    return 2
