import os
import subprocess
import sys

from . import driver as D
from . import props as P
from . import kani as K

COMMON_ASSUMPTIONS = [
    "the program verified is rustc's MIR of the real derive expansion (Kani's pinned nightly, dev profile, overflow checks on), translated by kani-compiler 0.68 and decided by CBMC 6.11 + CaDiCaL",
    "release-profile behaviour is exercised only by native replay of counterexamples",
    "the oracle tables DISC/SORTED/NAMES come from the declaration text by Rust's discriminant rule and are tied to rustc by a const assertion SORTED[k] as R == DISC[k] in every module",
    "std's own iterator implementations are trusted beyond the bounded operation sequences",
]
COMMON_OUTSIDE = [
    "declarations outside the generated corpus (the solver quantifies over inputs, not over declarations)",
    "u128/i128 reprs (kani-compiler 0.68 ICE on Option<enum with 128-bit tag>)",
    "32-bit usize/isize targets",
    "enums with more than 1000 variants",
]

RULES = {
    "C01": "one obligation = (declaration, bundle, harness kind); every value n of the repr type and every variant index is symbolic; non-trivial = all checks decided and the vacuity witnesses (declared / undeclared value reached) satisfied",
    "C02": "one obligation = (declaration, bundle, derived function group) with fully symbolic arguments; verdict restricted to UB-class checks (invalid enum construction, unreachable_unchecked, pointer checks, 'UB:' assertions incl. the double-call determinism detector for uninitialised reads)",
    "C03": "one obligation = (declaration, as_str-mode bundle, as_str|fmt harness); variant index symbolic; names compared byte-wise with the oracle NAMES",
    "C04": "one obligation = (declaration, from_str/FromStr mode bundle, harness); from_str_pos: index of the parsed name symbolic; from_str_sym: every valid UTF-8 string up to L bytes symbolic, membership oracle is a byte-comparison formula emitted from the declaration",
    "C05": "one obligation = (declaration, bundle, minmax_next); variant index symbolic",
    "C06": "one obligation = (declaration, iterator-mode bundle, harness); next_and_back: inductive step from an arbitrary private state under the representation invariant; std-backed modes: S symbolic operations + content via symbolic nth/nth_back + whole-iterator consumers",
    "C07": "one obligation = (declaration, iterator-mode bundle + range, harness); both end points symbolic over all ordered pairs incl. a == b and a > b",
    "C08": "one obligation = (declaration, bundle with names, harness); item type &'static str compared byte-wise with NAMES",
    "C11": "one obligation = (literal-spelling declaration, bundle, harness): the derive's tables agree with the discriminants rustc assigned for every n",
}


def run_engine_a_property(pid, tier, seed):
    rep = D.Report(pid, tier, seed)
    mods = P.PLANS[pid](tier, seed)
    only = os.environ.get("VT_ONLY")
    if only:  # debugging aid: restrict to modules whose name contains one of the substrings
        mods = [m for m in mods if any(x in m.name for x in only.split(","))]
    seen = {}
    for m in mods:
        seen.setdefault(m.decl.name, m.decl)
    rep.corpus = [d.describe() for d in seen.values()]
    rep.bounds = {
        "declarations": len(seen), "modules": len(mods),
        "harnesses": sum(len(m.harnesses) for m in mods),
        "unwind": "per harness (#runs+2, name length+2, table size+2 as applicable); unwinding assertions on, doubled on failure",
        "max_variants": max(d.n for d in seen.values()),
        "reprs": sorted({d.repr for d in seen.values()}),
        "seed": seed,
    }
    ht = 300 if tier == "quick" else 1200
    D.engine_a(rep, mods, ht, compile_violation=(pid != "C02"))
    return D.finish(rep, RULES[pid], COMMON_ASSUMPTIONS, COMMON_OUTSIDE)


def main(argv):
    if not argv:
        print(__doc__ or "usage: check <ID> [--tier quick|thorough]")
        return 2
    if argv[0] == "replay":
        path = argv[1]
        rel = "--release" in argv
        cmd = ["cargo", "run", "--offline", "--quiet", "--bin", "replay", "--target-dir",
               os.path.join(K.WORK, "target-replay")] + (["--release"] if rel else [])
        if not os.path.exists(os.path.join(path, "src", "replay.rs")):
            cmd = ["cargo", "check", "--offline", "--target-dir", os.path.join(K.WORK, "target-replay")]
        return subprocess.call(cmd, cwd=path)
    pid = argv[0]
    tier = os.environ.get("VERIF_TIER", "quick")
    if "--tier" in argv:
        tier = argv[argv.index("--tier") + 1]
    if tier not in ("quick", "thorough"):
        tier = "quick"
    try:
        seed = int(os.environ.get("VERIF_SEED", "1"))
    except ValueError:
        seed = 1
    os.makedirs(K.WORK, exist_ok=True)
    if pid in P.PLANS:
        return run_engine_a_property(pid, tier, seed)
    print("unknown or not-applicable property: %s" % pid)
    return 2
