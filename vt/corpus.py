"""Declaration corpus: families of enum declarations, configuration bundles and the
oracle tables (DISC / SORTED / NAMES) that are derived from the declaration alone.

Nothing in here looks at /repo: the oracle is Rust's own discriminant rule
("explicit literal, else previous + 1, first = 0") applied to the declaration text we
emit, and it is re-checked against rustc in every generated module by a `const`
assertion `SORTED[k] as R == DISC[k]`.
"""
import random

REPRS = {
    "u8": (8, False), "u16": (16, False), "u32": (32, False), "u64": (64, False),
    "usize": (64, False),
    "i8": (8, True), "i16": (16, True), "i32": (32, True), "i64": (64, True),
    "isize": (64, True),
    # 128-bit: reachable for Kani only when the smallest discriminant is not 0 (otherwise
    # rustc puts Option<E>'s niche at u128::MAX and kani-compiler 0.68 ICEs, rvalue.rs:1009)
    "u128": (128, False), "i128": (128, True),
}
REPR_ORDER = ["u8", "i8", "u16", "i16", "u32", "i32", "u64", "i64", "usize", "isize"]
I64_MIN, I64_MAX = -(2 ** 63), 2 ** 63 - 1


def rmin(r):
    bits, signed = REPRS[r]
    m = -(2 ** (bits - 1)) if signed else 0
    return max(m, I64_MIN)  # the derive's documented domain is i64


def rmax(r):
    bits, signed = REPRS[r]
    m = 2 ** (bits - 1) - 1 if signed else 2 ** bits - 1
    return min(m, I64_MAX)  # the derive's documented domain is i64


def rust_str(s):
    """A Rust string literal for `s` (ASCII-only source text)."""
    out = ['"']
    for ch in s:
        o = ord(ch)
        if ch == '"':
            out.append('\\"')
        elif ch == "\\":
            out.append("\\\\")
        elif 0x20 <= o < 0x7F:
            out.append(ch)
        else:
            out.append("\\u{%x}" % o)
    out.append('"')
    return "".join(out)


def rust_raw_str(s):
    """A raw string literal if possible (different lexer path than rust_str)."""
    if any(ord(c) < 0x20 or ord(c) >= 0x7F for c in s) or '"#' in s or s.endswith('"'):
        return rust_str(s)
    return 'r#"' + s + '"#'


class Variant:
    def __init__(self, ident, value, lit=None, rename=None, attrs=(), raw_rename=False):
        self.ident = ident
        self.value = value      # the discriminant rustc will assign (our model)
        self.lit = lit          # literal text as written, or None = implicit
        self.rename = rename
        self.attrs = list(attrs)
        self.raw_rename = raw_rename

    @property
    def name(self):
        return self.rename if self.rename is not None else self.ident


class Decl:
    def __init__(self, name, repr_, variants, family, tier="q", enum_attrs=(), note="",
                 sorted_attr=None):
        self.name = name
        self.repr = repr_
        self.variants = variants
        self.family = family
        self.tier = tier
        self.enum_attrs = list(enum_attrs)
        self.note = note
        self.sorted_attr = sorted_attr
        # model check: implicit discriminants follow Rust's rule
        prev = -1
        for v in variants:
            if v.lit is None:
                assert v.value == prev + 1, (name, v.ident, v.value, prev)
            prev = v.value
        vals = [v.value for v in variants]
        assert len(set(vals)) == len(vals), name
        assert all(rmin(repr_) <= x <= rmax(repr_) for x in vals), name
        assert len({v.ident for v in variants}) == len(variants), name

    # --- oracle -----------------------------------------------------------------
    @property
    def n(self):
        return len(self.variants)

    @property
    def by_value(self):
        return sorted(self.variants, key=lambda v: v.value)

    @property
    def disc(self):
        return [v.value for v in self.by_value]

    @property
    def names(self):
        return [v.name for v in self.by_value]

    @property
    def runs(self):
        d = self.disc
        runs = []
        b = last = d[0]
        for x in d[1:]:
            if x != last + 1:
                runs.append((b, last))
                b = x
            last = x
        runs.append((b, last))
        return runs

    @property
    def gapless(self):
        return len(self.runs) == 1

    @property
    def names_distinct(self):
        return len(set(self.names)) == self.n

    @property
    def max_name_len(self):
        return max(len(x.encode("utf-8")) for x in self.names)

    def lit_typed(self, x):
        """literal of the repr type usable in a const table"""
        return str(x)

    # --- text -------------------------------------------------------------------
    def rust_enum(self, attr_lines, derives="Clone, Copy, EnumTools"):
        out = []
        for a in self.enum_attrs:
            out.append(a)
        out.append("#[derive(%s)]" % derives)
        for a in attr_lines:
            out.append(a)
        if self.sorted_attr:
            out.append("#[enum_tools(sorted(%s))]" % self.sorted_attr)
        out.append("#[repr(%s)]" % self.repr)
        out.append("pub enum E {")
        for v in self.variants:
            for a in v.attrs:
                out.append("    " + a)
            if v.rename is not None:
                lit = rust_raw_str(v.rename) if v.raw_rename else rust_str(v.rename)
                out.append("    #[enum_tools(rename = %s)]" % lit)
            if v.lit is None:
                out.append("    %s," % v.ident)
            else:
                out.append("    %s = %s," % (v.ident, v.lit))
        out.append("}")
        return "\n".join(out)

    def describe(self):
        d = self.disc
        if len(d) > 14:
            ds = "%s .. %s (%d values, %d runs)" % (d[:4], d[-3:], len(d), len(self.runs))
        else:
            ds = str(d)
        return {"decl": self.name, "repr": self.repr, "family": self.family,
                "n": self.n, "runs": len(self.runs), "discriminants": ds,
                "declaration_order": [v.ident + ("" if v.lit is None else "=" + v.lit)
                                      for v in self.variants][:14],
                "note": self.note}


# ----------------------------------------------------------------------------------
# construction helpers

def ident_for_rank(rank, n):
    if n <= 26:
        return chr(65 + (rank * 7 + 3) % 26)      # scrambled: ident order != value order
    return "V%04d" % (rank ^ 0x155)


def order_values(values, order, seed=0):
    vs = sorted(values)
    if order == "sorted":
        return vs
    if order == "reversed":
        return vs[::-1]
    if order == "interleave":
        return vs[1::2] + vs[0::2]
    if order == "runs_reversed":
        # keep runs ascending (so implicit discriminants are possible) but reverse the runs
        runs, cur = [], [vs[0]]
        for x in vs[1:]:
            if x == cur[-1] + 1:
                cur.append(x)
            else:
                runs.append(cur)
                cur = [x]
        runs.append(cur)
        return [x for r in reversed(runs) for x in r]
    if order == "shuffled":
        rng = random.Random(seed * 7919 + len(vs))
        rng.shuffle(vs)
        return vs
    raise ValueError(order)


def mk(name, repr_, values, family, order="sorted", implicit="alt", renames=None,
       idents=None, tier="q", seed=0, note="", lits=None, enum_attrs=(), vattrs=None,
       raw=False, sorted_attr=None):
    """Build a Decl for the set `values` with declaration order `order`.
    implicit: 'none' | 'max' | 'alt' - which of the positions that *can* be implicit are."""
    renames = renames or {}
    lits = lits or {}
    vattrs = vattrs or {}
    ranked = sorted(values)
    rank = {x: i for i, x in enumerate(ranked)}
    n = len(ranked)
    decl_order = order_values(values, order, seed) if isinstance(order, str) else list(order)
    out = []
    prev = -1
    flip = True
    for x in decl_order:
        can = (x == prev + 1) and x not in lits
        if implicit == "none":
            imp = False
        elif implicit == "max":
            imp = can
        else:
            imp = can and flip
            if can:
                flip = not flip
        lit = None if imp else lits.get(x, str(x))
        ident = idents[x] if idents else ident_for_rank(rank[x], n)
        out.append(Variant(ident, x, lit, renames.get(x), vattrs.get(x, ()), raw))
        prev = x
    return Decl(name, repr_, out, family, tier, enum_attrs, note, sorted_attr)


# ----------------------------------------------------------------------------------
# families

def k1():
    """The repository's own two test enums (tests/macro/macro.rs)."""
    eg = Decl("k1_eg", "i8", [Variant("A", 0, None, "A*"), Variant("B", 1), Variant("C", 2),
                              Variant("D", 3)], "K1", note="tests/macro EG")
    eh = Decl("k1_eh", "i8", [Variant("A", 0, "0", "A*"), Variant("B", 9, "9"),
                              Variant("C", 2, "2"), Variant("D", 1, "1")], "K1",
              note="tests/macro EH")
    return [eg, eh]


def k2_values(r):
    lo, hi = rmin(r), rmax(r)
    if REPRS[r][1]:
        # run at MIN, singleton, negative run *after* the first, run straddling 0,
        # singleton, run at MAX
        return [lo, lo + 1, lo + 3, -10, -9, -8, -1, 0, 1, 5, hi - 1, hi]
    return [0, 1, 3, 10, 11, 12, 100, 200, 201, hi - 1, hi]


def k2():
    out = []
    for i, r in enumerate(REPR_ORDER):
        out.append(mk("k2_" + r, r, k2_values(r), "K2", order="shuffled", seed=i + 1,
                      implicit="alt", note="runs touching type MIN/MAX, singletons, "
                      "negative later run, shuffled, mixed implicit/explicit"))
    # interior only (no run at the type limits): isolates sign handling from edge wrap
    out.append(mk("k2_i8_mid", "i8", [-10, -5, -4, 0, 3], "K2", order="interleave",
                  note="negative later runs, nothing at the type limits"))
    out.append(mk("k2_i32_mid", "i32", [-70000, -69999, -3, -2, 40, 41, 42, 1 << 20], "K2",
                  order="runs_reversed", implicit="max", tier="t"))
    out.append(mk("k2_u8_two", "u8", [7, 9], "K2", note="two singleton runs"))
    out.append(mk("k2_i64_two", "i64", [I64_MIN, I64_MAX], "K2", order="reversed",
                  note="only the two i64 limits: a hole wider than i64::MAX"))
    out.append(mk("k2_i64_far", "i64", [-(1 << 62), (1 << 62)], "K2", order="sorted", tier="t",
                  note="two variants exactly 2^63 apart"))
    return out


def k3():
    out = []
    for r in REPR_ORDER:
        lo, hi = rmin(r), rmax(r)
        signed = REPRS[r][1]
        q8 = r in ("i8", "u8", "i64", "u64")
        out.append(mk("k3_%s_lo" % r, r, range(lo, lo + 4), "K3", order="interleave",
                      note="gapless at type MIN"))
        out.append(mk("k3_%s_hi" % r, r, range(hi - 3, hi + 1), "K3", order="reversed",
                      implicit="none", note="gapless at type MAX"))
        if signed:
            out.append(mk("k3_%s_zero" % r, r, range(-2, 3), "K3", order="shuffled", seed=3,
                          tier="q" if q8 else "t", note="gapless straddling 0"))
        out.append(mk("k3_%s_mid" % r, r, range(5, 10), "K3", order="sorted", implicit="max",
                      tier="t", note="gapless interior, MIN != 0"))
        out.append(mk("k3_%s_1lo" % r, r, [lo], "K3", tier="q" if q8 else "t",
                      note="single variant at type MIN"))
        out.append(mk("k3_%s_1hi" % r, r, [hi], "K3", tier="q" if q8 else "t",
                      note="single variant at type MAX"))
        if signed:
            out.append(mk("k3_%s_1z" % r, r, [0], "K3", tier="t", implicit="max",
                          note="single variant 0, implicit"))
    return out


def k4():
    """names: renames with awkward contents, duplicates, prefix/suffix/case pairs."""
    out = []
    out.append(mk("k4_esc", "u8", [0, 1, 2, 3, 4, 5], "K4", order="interleave",
                  renames={0: "", 1: 'q"t', 2: "b\\s", 3: "{x}", 4: "é中", 5: "a b"},
                  note="empty, quote, backslash, braces, non-ASCII, blank"))
    out.append(mk("k4_esc_h", "i8", [-3, -2, 0, 4, 5, 9], "K4", order="shuffled", seed=5,
                  renames={-3: "{}", -2: "", 0: "\\n", 4: '"', 5: "ß", 9: "{{0}}"},
                  raw=True, note="with holes; raw-string renames"))
    # prefix / suffix / case pairs; a rename equal to another variant's identifier
    out.append(mk("k4_pre", "u8", [1, 2, 3, 4, 5], "K4", order="reversed",
                  idents={1: "Ab", 2: "AB", 3: "A", 4: "Abc", 5: "Zz"},
                  renames={5: "ab"}, note="prefix, suffix and case pairs"))
    out.append(mk("k4_pre_h", "i16", [-300, -1, 0, 7, 300], "K4", order="interleave",
                  idents={-300: "Ab", -1: "AB", 0: "A", 7: "Abc", 300: "Zz"},
                  renames={300: "A "}, note="same with holes"))
    # a renamed variant whose identifier is NOT a name; rename equal to another identifier
    out.append(mk("k4_swap", "u8", [0, 1, 2, 3], "K4", order="shuffled", seed=2,
                  idents={0: "Foo", 1: "Bar", 2: "Baz", 3: "Qux"},
                  renames={0: "Bar", 1: "Foo", 2: "qux"},
                  note="renames swap two identifiers; 'Baz' is not a name"))
    out.append(mk("k4_swap_h", "i8", [-1, 1, 3, 4], "K4", order="reversed",
                  idents={-1: "Foo", 1: "Bar", 3: "Baz", 4: "Qux"},
                  renames={-1: "Bar", 1: "Foo", 3: "qux"}))
    # duplicate names
    out.append(mk("k4_dup", "u8", [0, 1, 2, 3], "K4", order="interleave",
                  idents={0: "P", 1: "Q", 2: "S", 3: "T"},
                  renames={0: "x", 2: "x", 3: "Q"},
                  note="duplicate names: P,S -> 'x'; Q and T -> 'Q'"))
    out.append(mk("k4_dup_h", "i8", [-7, 0, 1, 20], "K4", order="reversed",
                  idents={-7: "P", 0: "Q", 1: "S", 20: "T"},
                  renames={-7: "x", 1: "x", 20: "Q"}))
    # identifiers: every lower-case initial, underscore, digits; identifiers that are prefixes
    # of each other (`r`, `rr`, `red`) - the name is the identifier, character for character
    idl = [chr(97 + i) + "v" for i in range(26)] + ["r", "rr", "red", "_r", "R", "r2"]
    out.append(mk("k4_ids", "u8", list(range(len(idl))), "K4I", order="sorted", implicit="max",
                  idents={i: x for i, x in enumerate(idl)},
                  enum_attrs=["#[allow(non_camel_case_types)]"],
                  note="identifier alphabet: lower-case initials, underscore, prefixes"))
    return out


def k5(thorough):
    out = []
    # 300 variants i16 in 6 runs, first at i16::MIN, last ends at i16::MAX
    vals = (list(range(-32768, -32768 + 50)) + list(range(-100, -50)) + list(range(-5, 45))
            + list(range(1000, 1050)) + list(range(20000, 20050)) + list(range(32767 - 49, 32768)))
    out.append(mk("k5_i16_300", "i16", vals, "K5", order="runs_reversed", implicit="max",
                  note="300 variants, 6 runs, first at i16::MIN, last at i16::MAX"))
    out.append(mk("k5_u16_300", "u16", range(40000, 40300), "K5", order="sorted", implicit="max",
                  note="300 gapless"))
    # i8 with > 127 variants and holes: per-run offset exceeds i8::MAX
    vals = list(range(-128, -60)) + list(range(-50, 0)) + list(range(10, 30))
    out.append(mk("k5_i8_138", "i8", vals, "K5", order="runs_reversed", implicit="max",
                  note="138 variants i8 with holes: names-before-run offset > i8::MAX"))
    out.append(mk("k5_i8_150g", "i8", range(-100, 50), "K5", order="sorted", implicit="max",
                  note="150 gapless variants on i8: table index exceeds i8::MAX (sign extension of index casts)"))
    out.append(mk("k5_u8_256", "u8", range(0, 256), "K5", order="sorted", implicit="max",
                  note="all 256 values of u8: MIN and MAX are the type limits, the count does not fit the repr"))
    out.append(mk("k5_i8_256", "i8", range(-128, 128), "K5", order="sorted", implicit="max",
                  note="all 256 values of i8"))
    out.append(mk("k5_u8_250h", "u8", list(range(0, 200)) + list(range(205, 255)), "K5",
                  order="sorted", implicit="max", tier="t", note="250 variants u8, 2 runs"))
    if thorough:
        vals = (list(range(-32768, -32768 + 200)) + list(range(-300, 100))
                + list(range(5000, 5200)) + list(range(32767 - 199, 32768)))
        out.append(mk("k5_i16_1000", "i16", vals, "K5", order="runs_reversed", implicit="max",
                      tier="t", note="1000 variants, 4 runs"))
    return out


def ks():
    """declarations that carry the compile-time `sorted` feature (sorted by name and value)"""
    out = []
    ids = {1: "Aa", 2: "Bb", 3: "Cc", 4: "Dd"}
    out.append(mk("ks_g", "u8", [1, 2, 3, 4], "KS", order="sorted", implicit="max", idents=ids,
                  renames={4: "Zz"}, sorted_attr="name, value", note="gapless, #[enum_tools(sorted(name, value))]"))
    idh = {-5: "Alpha", -4: "Beta", 0: "Gamma", 7: "MiXed", 8: "Omega"}
    out.append(mk("ks_h", "i16", [-5, -4, 0, 7, 8], "KS", order="sorted", implicit="alt", idents=idh,
                  renames={7: "NAME with Caps"}, sorted_attr="name, value", note="holes, upper-case names, sorted(name, value)"))
    out.append(mk("ks_n", "i8", [-1, 3, 9], "KS", order=[3, -1, 9], implicit="none", idents={3: "A", -1: "B", 9: "C"},
                  sorted_attr="name", note="sorted(name) only, values not ascending"))
    return out


def k6():
    """literal spellings (C11)."""
    out = []
    out.append(mk("k6_bases", "i16", [-16, -8, 0, 1, 8, 10, 255, 1000], "K6",
                  order=[255, 8, -16, 10, -8, 1000, 0, 1], implicit="alt",
                  lits={255: "0xff", 8: "0o10", -16: "-0x10", 10: "0b1010", -8: "-0o10",
                        1000: "1_000", 0: "0_0"},
                  enum_attrs=["/// doc comment on the enum", "#[allow(dead_code)]"],
                  vattrs={8: ["/// doc on a variant"], 10: ["#[allow(dead_code)]"],
                          0: ["#[cfg(all())]"]},
                  note="hex, octal, binary, separators, negated hex/octal; foreign attrs"))
    out.append(mk("k6_suffix", "u32", [5, 6, 7, 0x10000, 0x10001, 4000000000], "K6",
                  order=[0x10000, 0x10001, 5, 6, 7, 4000000000], implicit="max",
                  lits={0x10000: "0x1_0000u32", 5: "5u32", 4000000000: "4_000_000_000_u32"},
                  note="type suffixes, implicit after explicit hex"))
    out.append(mk("k6_i64lim", "i64", [I64_MIN, I64_MIN + 1, -1, 0, I64_MAX - 1, I64_MAX], "K6",
                  order=[I64_MAX - 1, I64_MAX, -1, 0, I64_MIN, I64_MIN + 1], implicit="max",
                  lits={I64_MIN: "-9223372036854775808", I64_MAX - 1: "0x7fff_ffff_ffff_fffe"},
                  note="i64::MIN and i64::MAX, implicit after each"))
    out.append(mk("k6_i64max", "i64", [-5, -4, I64_MAX - 2, I64_MAX - 1, I64_MAX], "K6",
                  order=[I64_MAX - 2, I64_MAX - 1, I64_MAX, -5, -4], implicit="max",
                  lits={I64_MAX - 2: "9_223_372_036_854_775_805i64", -5: "-0b101"},
                  note="i64::MAX reached by implicit increments (i64::MIN is in k6_i64lim)"))
    out.append(mk("k6_u64", "u64", [0, 1, 2, 1 << 40, (1 << 40) + 1, I64_MAX], "K6",
                  order=[1 << 40, (1 << 40) + 1, I64_MAX, 0, 1, 2], implicit="max",
                  lits={1 << 40: "0x100_0000_0000", I64_MAX: "0x7FFF_FFFF_FFFF_FFFF", 0: "0b0"},
                  note="u64 up to the documented i64::MAX limit"))
    out.append(mk("k6_i8lim", "i8", [-128, -127, -1, 0, 126, 127], "K6",
                  order=[126, 127, -128, -127, -1, 0], implicit="max",
                  lits={126: "0x7e", -128: "-0x80", -1: "-1i8"},
                  note="repr limits in hex, implicit to the limit"))
    out.append(mk("k6_implicit", "u8", [0, 1, 2, 3, 4], "K6", order="sorted", implicit="max",
                  note="all implicit"))
    out.append(mk("k6_usize", "usize", [3, 4, 0x10, 0x11, 0o777], "K6",
                  order=[0x10, 0x11, 0o777, 3, 4], implicit="max",
                  lits={0x10: "0x10usize", 0o777: "0o777", 3: "0b11"}, tier="t"))
    out.append(mk("k6_isize", "isize", [-0x100, -0xff, 0, 1, 2], "K6",
                  order=[0, 1, 2, -0x100, -0xff], implicit="max",
                  lits={-0x100: "-0x100isize"}, tier="t"))
    return out


def k10():
    """span boundaries: with-holes enums whose MAX - MIN is exactly 2^k - 1, 2^k, 2^k + 1
    (word-size boundaries of any lookup / bitmask / index-width shortcut), two or three runs,
    starting at 0, below 0 and at the lower type limit."""
    out = []
    k = 0
    for s in (7, 8, 9, 15, 16, 17, 31, 32, 33, 63, 64, 65, 127, 128, 129, 255, 256, 257):
        shapes = [("u16", 0), ("i16", -40), ("i16", -32768), ("i64", I64_MAX - s)]
        r, b = shapes[k % len(shapes)]
        vals = [b, b + 1, b + s] if k % 2 == 0 else [b, b + s - 1, b + s]
        out.append(mk("k10_s%d" % s, r, vals, "K10", order="shuffled" if k % 3 == 0 else "sorted", seed=s,
                      implicit="max", tier="q" if s in (31, 32, 33, 63, 64, 65, 127, 128, 256) else "t",
                      note="MAX - MIN == %d" % s))
        k += 1
    # the same spans in the narrow reprs where they touch both type limits
    out.append(mk("k10_u8_full", "u8", [0, 1, 64, 255], "K10", implicit="max", note="spans 64 and 255 in u8"))
    out.append(mk("k10_i8_s64", "i8", [-64, -63, 0], "K10", implicit="max", note="MAX - MIN == 64 in i8"))
    return out


def kani_ok_128(values):
    """rustc (nightly 2026-08) puts Option<E>'s niche at whichever of min-1 / max+1 is closer
    to zero; kani-compiler 0.68 ICEs (rvalue.rs:1009, u64::try_from(niche_start)) when that is
    negative.  Measured on 11 shapes; modules that ICE anyway are dropped by the driver."""
    lo, hi = min(values), max(values)
    a, b = lo - 1, hi + 1
    chosen = a if abs(a) <= abs(b) else b
    return 0 <= chosen < 2 ** 64


def admissible_reprs(values):
    rs = [r for r in REPR_ORDER if all(rmin(r) <= v <= rmax(r) for v in values)]
    if kani_ok_128(values):
        rs += [r for r in ("u128", "i128") if all(rmin(r) <= v <= rmax(r) for v in values)]
    return rs


def k9():
    """128-bit reprs (smallest discriminant != 0, see REPRS)"""
    out = []
    lo, hi = I64_MIN, I64_MAX
    out.append(mk("k9_i128", "i128", [lo, lo + 1, lo + 3, -10, -9, -8, -1, 0, 1, 5, hi - 1, hi], "K9",
                  order="shuffled", seed=12, implicit="alt", renames={5: "five"},
                  note="i128 with holes over the whole i64 domain"))
    out.append(mk("k9_u128", "u128", [1, 2, 4, 10, 11, 12, 100, 200, 201, hi - 1, hi], "K9",
                  order="shuffled", seed=13, implicit="alt", note="u128 with holes, min 1"))
    out.append(mk("k9_i128_gap", "i128", range(-3, 3), "K9", order="interleave", note="i128 gapless straddling 0"))
    out.append(mk("k9_u128_gap", "u128", range(5, 10), "K9", order="reversed", implicit="none", note="u128 gapless, min 5"))
    out.append(mk("k9_i128_neg", "i128", range(-4, 0), "K9", order="sorted", implicit="alt", note="i128 gapless, all negative"))
    out.append(mk("k9_u128_hi", "u128", range(hi - 3, hi + 1), "K9", order="reversed", note="u128 gapless at i64::MAX"))
    out.append(mk("k9_i128_1", "i128", [-1], "K9", tier="t", note="single variant"))
    out.append(mk("k9_u128_150", "u128", range(1, 151), "K9", order="sorted", implicit="max", tier="t", note="150 gapless"))
    assert all(kani_ok_128(d.disc) for d in out)
    return out


def k7(thorough):
    """metamorphic families: one value->name map under several orders and reprs.
    returns list of (family_id, [decl...])"""
    fams = []
    maps = [
        ("k7a", [-3, -2, 0, 1, 5, 6, 7, 20], {0: "zero", 5: "f i v e"}),
        ("k7b", [2, 3, 4, 5, 6], {3: "three"}),
        ("k7c", [0, 1, 2, 50, 100, 101], {}),
    ]
    big = list(range(-20, 130)) + list(range(1000, 1150))
    maps.append(("k7d", big, {}))
    for fid, vals, ren in maps:
        members = []
        reprs = admissible_reprs(vals)
        if not thorough:
            # quick: narrowest, a 64 bit one, a pointer-sized one
            keep = [reprs[0], "i64", "isize" if "isize" in reprs else "usize", "i128"]
            if fid == "k7c":
                keep = ["u8", "i16", "u64"]
            if fid == "k7d":
                keep = ["i16", "i32"]
            reprs = [r for r in reprs if r in keep]
        for r in reprs:
            for oi, order in enumerate(["sorted", "reversed", "shuffled"] if fid != "k7d" else ["runs_reversed"]):
                if fid != "k7d" and not thorough and (r != reprs[0]) and order != ["reversed", "shuffled", "sorted"][list(REPRS).index(r) % 3]:
                    continue
                members.append(mk("%s_%s_%s" % (fid, r, order[:3]), r, vals, "K7",
                                  order=order, seed=11, implicit="alt" if oi != 1 else "none",
                                  renames=ren, note="metamorphic family " + fid))
        fams.append((fid, members))
    return fams


def k8(seed, count):
    """seeded random declarations"""
    out = []
    rng = random.Random(seed)
    for i in range(count):
        r = rng.choice(REPR_ORDER)
        lo, hi = rmin(r), rmax(r)
        nruns = rng.randint(1, 7)
        vals = set()
        # anchors: sometimes at the type edges / around zero
        anchors = []
        for _ in range(nruns):
            c = rng.random()
            ln = rng.randint(1, 5)
            if c < 0.2:
                a = lo
            elif c < 0.4:
                a = hi - ln + 1
            elif c < 0.6 and REPRS[r][1]:
                a = rng.randint(-6, 2)
            else:
                span = min(hi - lo, 4000)
                a = rng.randint(max(lo, -span // 2), min(hi - ln, span // 2))
            anchors.append((a, ln))
        for a, ln in anchors:
            for x in range(a, a + ln):
                if lo <= x <= hi:
                    vals.add(x)
        vals = sorted(vals)
        ren = {}
        for x in vals:
            if rng.random() < 0.25:
                ren[x] = rng.choice(["", "x", "a-b", "Q", "q", " sp", "ü", "r#", "A", "B"])
        order = rng.choice(["sorted", "reversed", "shuffled", "interleave", "runs_reversed"])
        out.append(mk("k8_s%d_%d" % (seed, i), r, vals, "K8", order=order, seed=seed + i,
                      implicit=rng.choice(["none", "max", "alt"]), renames=ren,
                      note="seeded (VERIF_SEED=%d)" % seed))
    return out


# ----------------------------------------------------------------------------------
# configuration bundles

ALL_FEATURES = ["as_str", "Debug", "Display", "from_str", "FromStr", "into", "IntoStr", "Into",
                "iter", "MAX", "MIN", "names", "next_back", "next", "range", "try_from",
                "TryFrom"]


class Bundle:
    def __init__(self, name, feats, split=1, note=""):
        """feats: dict feature -> None | dict(param -> value)"""
        self.name = name
        self.feats = feats
        self.split = split
        self.note = note

    def has(self, f):
        return f in self.feats

    def mode(self, f):
        p = self.feats.get(f)
        if f not in self.feats:
            return None
        return (p or {}).get("mode", "auto")

    def item(self, f):
        """name under which the item of feature f is generated"""
        p = self.feats.get(f) or {}
        return p.get("name", f)

    def attr_lines(self):
        parts = []
        for f, p in self.feats.items():
            if p:
                parts.append("%s(%s)" % (f, ", ".join((k if v is True else '%s = "%s"' % (k, v))
                                                      for k, v in p.items())))
            else:
                parts.append(f)
        if not parts:
            return []
        k = max(1, self.split)
        chunks = [parts[i::k] for i in range(k)]
        return ["#[enum_tools(%s)]" % ", ".join(c) for c in chunks if c]

    def legal_for(self, decl):
        im = self.mode("iter")
        if im == "range" and not decl.gapless:
            return False
        if self.has("range") and (not self.has("iter") or im == "table_inline"):
            return False
        return True

    def describe(self):
        return " ".join(self.attr_lines())


def _full(as_str, from_str, fromstr, it, rng=True, extra=None):
    f = {}
    f["as_str"] = {"mode": as_str} if as_str != "auto" else None
    f["from_str"] = {"mode": from_str} if from_str != "auto" else None
    f["FromStr"] = {"mode": fromstr} if fromstr != "auto" else None
    f["iter"] = {"mode": it} if it != "auto" else None
    for x in ["Debug", "Display", "Into", "into", "IntoStr", "MAX", "MIN", "names", "next",
              "next_back", "TryFrom", "try_from"]:
        f[x] = None
    if rng:
        f["range"] = None
    if extra:
        f.update(extra)
    return f


BUNDLES = {
    "M": Bundle("M", _full("match", "match", "match", "next_and_back"), note="all match / next_and_back + range"),
    "T": Bundle("T", _full("table", "table", "table", "table"), split=3, note="all table + range, split over 3 attributes"),
    "R": Bundle("R", _full("match", "table", "match", "range"), note="iter range + range (gapless only)"),
    "I": Bundle("I", _full("table", "match", "table", "table_inline", rng=False), note="iter table_inline, no range"),
    "A": Bundle("A", _full("auto", "auto", "auto", "auto"), split=3, note="everything enabled, all auto (tests/all.rs)"),
    # mixed from_str modes (function table, trait match and vice versa)
    "X1": Bundle("X1", {"as_str": None, "from_str": {"mode": "table"}, "FromStr": {"mode": "match"}}),
    "X2": Bundle("X2", {"as_str": {"mode": "table"}, "from_str": {"mode": "match"}, "FromStr": {"mode": "table"}}),
    # auto-steering bundles (C09): what auto resolves to depends on co-enabled features
    "S_as": Bundle("S_as", {"as_str": None, "Display": None, "Debug": None, "IntoStr": None}, note="as_str alone: auto -> match"),
    "S_asfs": Bundle("S_asfs", {"as_str": None, "from_str": None, "FromStr": None, "Display": None}, note="two autos -> table"),
    "S_asn": Bundle("S_asn", {"as_str": None, "names": None, "iter": None}, note="names forces the name table"),
    "S_itfs": Bundle("S_itfs", {"iter": None, "from_str": {"mode": "table"}, "FromStr": None, "next": None, "next_back": None, "MIN": None, "MAX": None}, note="holes: enum table present -> iter auto = table"),
    "S_it": Bundle("S_it", {"iter": None}, note="iter alone: gapless -> range; small holes -> table_inline; else next_and_back"),
    "S_itr": Bundle("S_itr", {"iter": None, "range": None}, note="iter+range auto"),
    "S_n": Bundle("S_n", {"names": None}, note="names only"),
    "S_tf": Bundle("S_tf", {"try_from": None, "TryFrom": None, "into": None, "Into": None}, note="conversions only"),
    "S_nx": Bundle("S_nx", {"next": None, "next_back": None, "MIN": None, "MAX": None}, note="order only"),
    # custom names
    "N": Bundle("N", {"as_str": {"name": "label", "mode": "table"}, "from_str": {"name": "parse_label"},
                      "iter": {"name": "all", "mode": "next_and_back"}, "range": {"name": "between"},
                      "next": {"name": "succ"}, "next_back": {"name": "pred"},
                      "MIN": {"name": "FIRST"}, "MAX": {"name": "LAST"},
                      "try_from": {"name": "from_repr"}, "into": {"name": "to_repr"},
                      "names": {"name": "labels"}}, split=2, note="custom item names"),
}


def _b(name, feats, split=1, note=""):
    BUNDLES[name] = Bundle(name, feats, split, note)


def _m(x):
    return {"mode": x} if x else None


_STR_TRAITS = {"Debug": None, "Display": None, "IntoStr": None}
# focused bundles: only what one property needs, so that a compile failure of a module is
# attributable to that property's own items
_b("TF", {"try_from": None, "TryFrom": None, "into": None, "Into": None}, note="conversions only (range table without offsets)")
_b("TFo", {"try_from": None, "TryFrom": None, "into": None, "Into": None, "MIN": None, "MAX": None, "as_str": _m("table")}, split=2, note="conversions + as_str table (range table with offsets)")
_b("NX", {"next": None, "next_back": None, "MIN": None, "MAX": None}, note="order items only")
_b("NXo", {"MAX": None, "next_back": None, "as_str": _m("table"), "next": None, "MIN": None}, split=2, note="order items + offsets in the range table")
_b("ASm", dict({"as_str": _m("match")}, **_STR_TRAITS))
_b("ASt", dict({"as_str": _m("table")}, **_STR_TRAITS), split=2)
_b("ASa", dict({"as_str": None}, **_STR_TRAITS), note="auto alone -> match")
_b("ASa2", dict({"as_str": None, "from_str": None}, **_STR_TRAITS), note="two autos -> table")
_b("ASn", {"Display": None, "names": None}, note="as_str only as a private helper, names table present")
_b("FSm", {"from_str": _m("match"), "FromStr": _m("match"), "as_str": _m("match")})
_b("FSt", {"from_str": _m("table"), "FromStr": _m("table"), "as_str": _m("table")})
_b("FSa", {"from_str": None, "FromStr": None, "as_str": None}, note="three autos -> table")
_b("FSx1", {"from_str": _m("table"), "FromStr": _m("match"), "as_str": None})
_b("FSx2", {"from_str": _m("match"), "FromStr": _m("table"), "as_str": _m("table")})
_b("FSa1", {"from_str": None}, note="auto alone -> match")
_b("FSa1t", {"FromStr": None, "names": None}, note="auto with names -> ?")
_b("ITr", {"iter": _m("range")})
_b("ITn", {"iter": _m("next_and_back")})
_b("ITt", {"iter": _m("table")})
_b("ITi", {"iter": _m("table_inline")})
_b("ITa", {"iter": None})
_b("ITaf", {"iter": None, "from_str": _m("table")}, note="holes: enum table exists -> auto = table")
_b("RGr", {"iter": _m("range"), "range": None})
_b("RGn", {"iter": _m("next_and_back"), "range": None})
_b("RGt", {"iter": _m("table"), "range": None})
_b("RGa", {"iter": None, "range": None})
_b("RGaf", {"range": None, "FromStr": _m("table"), "iter": None}, split=3)
_b("NM", {"names": None})
_b("NMx", {"names": None, "iter": None, "as_str": None})
_b("NMt", {"names": None, "iter": _m("table"), "as_str": _m("table"), "from_str": _m("table")}, split=2)
_b("NMn", {"names": None, "iter": _m("next_and_back"), "as_str": _m("match")})


def bundles_for(decl, names):
    return [BUNDLES[b] for b in names if BUNDLES[b].legal_for(decl)]
