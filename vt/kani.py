"""Runner for cargo-kani, JSON classification, native compile pre-pass."""
import json
import os
import re
import resource
import subprocess
import time

# overrides are for the framework's own mutation experiments only (tools/seedrun_wt.sh);
# the registered checks always run against /repo and write to /verif
REPO = os.environ.get("VT_REPO", "/repo")
WORK = os.environ.get("VT_WORK", "/verif/work")
EVIDENCE_DIR = os.environ.get("VT_EVIDENCE_DIR", "/verif/evidence")
TARGET = os.path.join(WORK, "target")
NATIVE_TARGET = os.path.join(WORK, "target-native")
MEM_LIMIT = 28 * 1024 ** 3

UB_CATEGORIES = {"safety_check", "unreachable", "pointer_dereference", "pointer",
                 "array_bounds", "pointer_arithmetic", "pointer_primitives", "memory-leak",
                 "enum", "undefined-shift"}
IGNORED_CATEGORIES = {"unsupported_construct"}


def _limits():
    resource.setrlimit(resource.RLIMIT_AS, (MEM_LIMIT, MEM_LIMIT))
    os.setsid()


def env():
    e = dict(os.environ)
    e["CARGO_NET_OFFLINE"] = "true"
    e.pop("RUSTFLAGS", None)
    e["CARGO_TERM_COLOR"] = "never"
    return e


def run(cmd, cwd, timeout, log=None, limits=True, extra_env=None):
    e = env()
    if extra_env:
        e.update(extra_env)
    t0 = time.time()
    p = subprocess.Popen(cmd, cwd=cwd, env=e, stdout=subprocess.PIPE, stderr=subprocess.STDOUT,
                         preexec_fn=_limits if limits else os.setsid, text=True, errors="replace")
    try:
        out, _ = p.communicate(timeout=timeout)
        rc = p.returncode
    except subprocess.TimeoutExpired:
        try:
            os.killpg(p.pid, 9)
        except Exception:
            pass
        out, _ = p.communicate()
        rc = -9
        out += "\n[vt] killed after %ds timeout\n" % timeout
    if log:
        with open(log, "w") as f:
            f.write("$ %s\n(cwd %s)\n" % (" ".join(cmd), cwd))
            f.write(out)
    return rc, out, time.time() - t0


# ----------------------------------------------------------------------------------
# native compile pre-pass: which module files does rustc reject, and where?

def native_check(crate_dir, log=None, timeout=1200):
    """returns (ok, errors) with errors = list of dict(file, line, message, in_expansion)"""
    # `build`, not `check`: errors from evaluating the derive's constants (E0080) only
    # appear once the functions using them are code-generated
    cmd = ["cargo", "build", "--lib", "--message-format=json", "--offline",
           "--target-dir", NATIVE_TARGET]
    rc, out, dt = run(cmd, crate_dir, timeout, log=log, limits=False)
    errors = []
    for line in out.splitlines():
        if not line.startswith("{"):
            continue
        try:
            m = json.loads(line)
        except Exception:
            continue
        if m.get("reason") != "compiler-message":
            continue
        msg = m["message"]
        if msg.get("level") != "error":
            continue
        spans = msg.get("spans") or []
        prim = [s for s in spans if s.get("is_primary")] or spans
        if not prim:
            if "aborting due to" in msg.get("message", ""):
                continue
            errors.append({"file": None, "line": 0, "message": msg.get("message", ""), "expansion": False})
            continue
        s = prim[0]
        # walk out of macro expansions to the user's file
        exp = False
        while s.get("expansion"):
            exp = True
            s = s["expansion"]["span"]
        errors.append({"file": s.get("file_name"), "line": s.get("line_start", 0),
                       "message": msg.get("message", ""), "expansion": exp,
                       "rendered": (msg.get("rendered") or "")[:1500]})
    return rc == 0, errors, dt


# ----------------------------------------------------------------------------------
# cargo kani

def cargo_kani(crate_dir, json_path, harness_timeout, jobs=16, harnesses=None, stubbing=False,
               extra=(), timeout=None, log=None, target=TARGET):
    if os.path.exists(json_path):
        os.remove(json_path)
    cmd = ["cargo", "kani", "-j", str(jobs), "--output-format", "terse",
           "-Z", "unstable-options", "--export-json", json_path,
           "--harness-timeout", "%ds" % harness_timeout, "--target-dir", target]
    if stubbing:
        cmd += ["-Z", "stubbing"]
    for h in harnesses or []:
        cmd += ["--harness", h]
    if harnesses:
        cmd += ["--exact"]
    cmd += list(extra)
    rc, out, dt = run(cmd, crate_dir, timeout or (harness_timeout * 40 + 1800), log=log)
    data = None
    if os.path.exists(json_path):
        try:
            with open(json_path) as f:
                data = json.load(f)
        except Exception as ex:  # truncated file
            out += "\n[vt] cannot parse %s: %s\n" % (json_path, ex)
    return rc, out, dt, data


class HResult:
    """classification of one harness run"""

    def __init__(self, hid):
        self.id = hid
        self.status = "missing"     # pass | fail | unwind | inconclusive | missing
        self.failures = []          # list of check dicts (status Failure, not unwinding)
        self.ub_failures = []
        self.overflow_in_derived = []
        self.covers = {}
        self.n_checks = 0
        self.n_success = 0
        self.duration_s = 0.0
        self.stats = {}
        self.functions = set()
        self.reason = ""


def _is_unwind(c):
    return c.get("category") in ("unwind", "unwinding") or "unwinding assertion" in c.get("description", "")


def is_derived_fn(fn):
    """does a CBMC function name belong to the derive's output (methods / impls of E)"""
    return bool(re.search(r"(::|<)E(::|>| as )|E(Iter|Names)", fn or ""))


def classify(data, out_text=""):
    """-> dict harness id -> HResult"""
    res = {}
    if not data:
        return res
    stats = {}
    for c in data.get("cbmc", []) or []:
        stats[c.get("harness_id")] = c.get("cbmc_stats", {}) or {}
    errs = {e.get("harness_id"): e for e in data.get("error_details", []) or []}
    for r in (data.get("verification_results", {}) or {}).get("results", []) or []:
        hid = r["harness_id"]
        h = HResult(hid)
        h.duration_s = (r.get("duration_ms") or 0) / 1000.0
        h.stats = stats.get(hid, {})
        checks = r.get("checks") or []
        h.n_checks = len(checks)
        unwind_fail = False
        undetermined = 0
        for c in checks:
            cat = c.get("category", "")
            st = c.get("status", "")
            fn = c.get("function", "")
            if is_derived_fn(fn):
                h.functions.add(re.sub(r"[a-z0-9_]+__[a-z0-9_]+::", "", fn))
            if cat == "cover":
                h.covers[c.get("description", "")] = st
                continue
            if cat in IGNORED_CATEGORIES and st != "Failure":
                continue
            if st == "Success":
                h.n_success += 1
            elif st == "Failure":
                if _is_unwind(c):
                    unwind_fail = True
                else:
                    h.failures.append(c)
                    if cat in UB_CATEGORIES or c.get("description", "").lstrip('"').startswith("UB:") \
                            or "invalid enum" in c.get("description", ""):
                        h.ub_failures.append(c)
                    elif cat == "arithmetic_overflow" or "attempt to" in c.get("description", ""):
                        if is_derived_fn(fn):
                            h.overflow_in_derived.append(c)
            elif st in ("Undetermined", "Unknown"):
                undetermined += 1
        status = r.get("status", "")
        e = errs.get(hid, {})
        if h.failures:
            h.status = "fail"
        elif unwind_fail:
            h.status = "unwind"
        elif status == "Success" and undetermined == 0:
            h.status = "pass"
        else:
            h.status = "inconclusive"
            h.reason = "%s / %s / undetermined=%d" % (status, e.get("exit_status") or e.get("error_type"), undetermined)
        res[hid] = h
    return res


def missing_reason(out_text, hid):
    short = hid.split("::")[-1]
    m = re.search(r"(harness|Harness)[^\n]*%s[^\n]*(timed out|timeout|Timeout)[^\n]*" % re.escape(short), out_text)
    if m:
        return "timeout"
    return "no result exported"
